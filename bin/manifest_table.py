# one chk(...) per claimed property; NOT_APPLICABLE[id] = reason for the others
chk("C01",
    "Bounded symbolic model checking: the real Grid.diff/interp/min/max are executed on arrays of z3 Real symbols for every axis layout (16), N in {2,3} (thorough 4), every shift, operator, boundary rule given per call (symbolic fill value) or as grid default, 0-1 (thorough 2) extra dims in every interleaving, 1-2 (thorough 3) axes in every order; z3 decides for all real data values that every result cell equals the stencil oracle written from the statement; dims/order are asserted per run.",
    "Bounds: N<=3 (4), <=1 (2) extra dims, <=2 (3) axes. Outside: larger sizes, float rounding, NaN/inf, symbolic grid-level fill.",
    "symbolic execution of the real code on z3 terms + z3 validity queries against an independent stencil oracle", "DESIGN.md 3/C01")
