"""Nondeterministic sets (DESIGN.md 2.1): the string-hash seed acts on xgcm only through the iteration
order of sets / frozensets.  While active, the names ``set`` and ``frozenset`` in the globals of the xgcm
modules are subclasses whose *iteration order* is a decision of the exploration tree (every permutation is
a branch); hashing, equality and membership are the builtin ones, so dict behaviour is unchanged.
``baseline()`` switches to the canonical (sorted) order for the reference run."""
import contextlib
import itertools
import math

from .core import Ctx

MODULES = ["xgcm.padding", "xgcm.grid_ufunc", "xgcm.comodo", "xgcm.sgrid", "xgcm.metrics", "xgcm.grid", "xgcm.axis",
           "xgcm.transform", "xgcm.metadata_parsers"]
STATE = {"mode": "nondet", "iterations": 0, "max_n": 0}
_builtin_set, _builtin_frozenset = set, frozenset


def _order(elems):
    """elements in the order chosen for this path"""
    try:
        canon = sorted(elems, key=lambda x: (str(type(x)), x))
    except TypeError:
        canon = sorted(elems, key=repr)
    n = len(canon)
    STATE["iterations"] += 1
    STATE["max_n"] = max(STATE["max_n"], n)
    if STATE["mode"] == "baseline" or n <= 1:
        return canon
    ctx = Ctx.cur
    if ctx is None:
        return canon
    if n > 5:
        raise RuntimeError("nondeterministic set with %d elements: too many permutations" % n)
    k = ctx.choice(math.factorial(n))
    return list(list(itertools.permutations(canon))[k])


def _wrap_result(cls, r):
    return cls(r) if isinstance(r, (_builtin_set, _builtin_frozenset)) and not isinstance(r, (NSet, NFrozenSet)) else r


class NSet(_builtin_set):
    def __iter__(self):
        # an unmodified set object iterates in the same order every time
        key = _builtin_frozenset(_builtin_set.__iter__(self))
        c = self.__dict__.get("_ord")
        if c is None or c[0] != key:
            c = (key, _order(list(key)))
            self.__dict__["_ord"] = c
        return iter(c[1])

    def __or__(self, o):
        return NSet(_builtin_set.__or__(self, o))

    def __and__(self, o):
        return NSet(_builtin_set.__and__(self, o))

    def __sub__(self, o):
        return NSet(_builtin_set.__sub__(self, o))

    def __xor__(self, o):
        return NSet(_builtin_set.__xor__(self, o))

    __ror__ = __or__
    __rand__ = __and__

    def union(self, *o):
        return NSet(_builtin_set.union(self, *o))

    def intersection(self, *o):
        return NSet(_builtin_set.intersection(self, *o))

    def difference(self, *o):
        return NSet(_builtin_set.difference(self, *o))

    def copy(self):
        return NSet(_builtin_set.copy(self))

    def pop(self):
        it = _order(list(_builtin_set.__iter__(self)))
        v = it[0]
        _builtin_set.discard(self, v)
        return v


class NFrozenSet(_builtin_frozenset):
    def __iter__(self):
        c = self.__dict__.get("_ord")
        if c is None:
            c = _order(list(_builtin_frozenset.__iter__(self)))
            self.__dict__["_ord"] = c
        return iter(c)

    def __or__(self, o):
        return NFrozenSet(_builtin_frozenset.__or__(self, o))

    def __and__(self, o):
        return NFrozenSet(_builtin_frozenset.__and__(self, o))

    def __sub__(self, o):
        return NFrozenSet(_builtin_frozenset.__sub__(self, o))

    __ror__ = __or__
    __rand__ = __and__

    def union(self, *o):
        return NFrozenSet(_builtin_frozenset.union(self, *o))

    def intersection(self, *o):
        return NFrozenSet(_builtin_frozenset.intersection(self, *o))

    def difference(self, *o):
        return NFrozenSet(_builtin_frozenset.difference(self, *o))


def scan_sources(repo):
    """set displays / comprehensions cannot be intercepted by name injection: assert there are none that are iterated.
    Returns list of (file, line, kind)."""
    import ast
    import os
    hits = []
    for modname in MODULES:
        path = os.path.join(repo, *modname.split(".")) + ".py"
        if not os.path.exists(path):
            continue
        tree = ast.parse(open(path).read())
        benign = set()
        for node in ast.walk(tree):
            # a set display only used as a membership / difference operand (never iterated): `_allowedkwargs = {...}`
            if isinstance(node, ast.Assign) and isinstance(node.value, ast.Set) and all(isinstance(t, ast.Name) and t.id == "_allowedkwargs" for t in node.targets):
                benign.add(id(node.value))
        for node in ast.walk(tree):
            if isinstance(node, (ast.Set, ast.SetComp)) and id(node) not in benign:
                hits.append((os.path.relpath(path, repo), node.lineno, type(node).__name__))
    return hits


def scan_uninterceptable(repo):
    """set algebra on dict views (`a.keys() & b.keys()` ...) builds builtin sets without going through the
    name `set`: reported (evidence), and covered only by the real-seed differential runs of C12"""
    import ast
    import os
    hits = []
    for modname in MODULES:
        path = os.path.join(repo, *modname.split(".")) + ".py"
        if not os.path.exists(path):
            continue
        tree = ast.parse(open(path).read())
        for node in ast.walk(tree):
            if isinstance(node, ast.BinOp) and isinstance(node.op, (ast.BitAnd, ast.BitOr, ast.BitXor, ast.Sub)):
                for side in (node.left, node.right):
                    if isinstance(side, ast.Call) and isinstance(side.func, ast.Attribute) and side.func.attr in ("keys", "items"):
                        hits.append("%s:%d" % (os.path.relpath(path, repo), node.lineno))
                        break
    return hits


@contextlib.contextmanager
def injected():
    import importlib
    saved = []
    for modname in MODULES:
        try:
            m = importlib.import_module(modname)
        except ImportError:
            continue
        saved.append((m, m.__dict__.get("set", None), m.__dict__.get("frozenset", None)))
        m.__dict__["set"] = NSet
        m.__dict__["frozenset"] = NFrozenSet
    try:
        yield
    finally:
        for m, s, f in saved:
            for name, old in (("set", s), ("frozenset", f)):
                if old is None:
                    m.__dict__.pop(name, None)
                else:
                    m.__dict__[name] = old


@contextlib.contextmanager
def baseline():
    old = STATE["mode"]
    STATE["mode"] = "baseline"
    try:
        yield
    finally:
        STATE["mode"] = old
