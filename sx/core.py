"""sx: symbolic execution of the real xgcm/xarray/numpy code by value overloading.

Symbolic scalars wrap z3 terms and live in dtype=object numpy arrays, so they
flow unchanged through xarray / numpy / dask.  The only place a path can split is
``SBool.__bool__`` (and ``SInt.__index__``): the explorer below is a depth-first
re-execution engine with one incremental z3 solver per path for the path
condition.

Soundness contract (see DESIGN.md 2.1): no silent concretisation -- __float__,
__int__ on SReal raise ``Concretised``; a budget overrun is reported as
incomplete, never as success.
"""
import math
import time
from fractions import Fraction

import numpy as np
import z3


class Abort(BaseException):
    """Infeasible path (internal)."""


class Concretised(Exception):
    """A symbolic value was asked for a concrete Python number."""


class Incomplete(Exception):
    """Exploration budget exhausted."""


# --------------------------------------------------------------------------
# exploration context
# --------------------------------------------------------------------------
class Ctx:
    cur = None

    def __init__(self, prefix=()):
        self.solver = z3.Solver()
        self.prefix = list(prefix)
        self.trace = []  # [nalt, chosen, extra]
        self.nforks = 0
        self.nchecks = 0
        self.t_solver = 0.0
        self.pc = []  # path condition terms (for reporting / obligations)
        self.assumptions = []

    # -- solver helpers
    def check(self, *extra):
        t = time.time()
        self.nchecks += 1
        r = self.solver.check(*extra)
        self.t_solver += time.time() - t
        if r == z3.unknown:
            raise Incomplete("path-condition query returned unknown")
        return r

    def assume(self, cond):
        """Add an assumption (precondition of the property) to the path."""
        if isinstance(cond, SBool):
            cond = cond.t
        if isinstance(cond, bool):
            if not cond:
                raise Abort()
            return
        self.solver.add(cond)
        self.assumptions.append(cond)
        if self.check() != z3.sat:
            raise Abort()

    def _push(self, cond):
        self.solver.add(cond)
        self.pc.append(cond)

    def decide_bool(self, cond):
        cond = z3.simplify(cond)
        if z3.is_true(cond):
            return True
        if z3.is_false(cond):
            return False
        k = len(self.trace)
        if k < len(self.prefix):
            nalt, choice = self.prefix[k][0], self.prefix[k][1]
            order = self.prefix[k][2]
        else:
            can_t = self.check(cond) == z3.sat
            can_f = self.check(z3.Not(cond)) == z3.sat
            if can_t and can_f:
                order = [True, False]
            elif can_t:
                order = [True]
            elif can_f:
                order = [False]
            else:
                raise Abort()
            nalt, choice = len(order), 0
            if nalt == 2:
                self.nforks += 1
        self.trace.append([nalt, choice, order])
        val = order[choice]
        self._push(cond if val else z3.Not(cond))
        return val

    def decide_value(self, term, limit=64):
        term = z3.simplify(term)
        if z3.is_int_value(term):
            return term.as_long()
        k = len(self.trace)
        if k < len(self.prefix):
            nalt, choice, vals = self.prefix[k]
        else:
            vals = []
            self.solver.push()
            while self.check() == z3.sat:
                v = self.solver.model().eval(term, model_completion=True).as_long()
                vals.append(v)
                self.solver.add(term != v)
                if len(vals) > limit:
                    self.solver.pop()
                    raise Incomplete("more than %d feasible values for %s" % (limit, term))
            self.solver.pop()
            if not vals:
                raise Abort()
            vals.sort()
            nalt, choice = len(vals), 0
            if nalt > 1:
                self.nforks += 1
        self.trace.append([nalt, choice, vals])
        self._push(term == vals[choice])
        return vals[choice]

    def choice(self, n):
        """A finite configuration decision of the same tree (0..n-1)."""
        if n <= 1:
            return 0
        k = len(self.trace)
        if k < len(self.prefix):
            nalt, c = self.prefix[k][0], self.prefix[k][1]
        else:
            nalt, c = n, 0
            self.nforks += 1
        self.trace.append([nalt, c, None])
        return c


def explore(fn, max_paths=200000, budget_s=None):
    """Run fn(ctx) on every feasible path.  Returns dict with stats.

    fn's return values are collected in 'results'.  Raises Incomplete if the
    tree could not be exhausted within max_paths / budget_s.
    """
    prefix = []
    results = []
    st = dict(paths=0, aborted=0, forks=0, checks=0, solver_s=0.0)
    t0 = time.time()
    while True:
        ctx = Ctx(prefix)
        Ctx.cur = ctx
        try:
            results.append(fn(ctx))
        except Abort:
            st["aborted"] += 1
        finally:
            Ctx.cur = None
        st["paths"] += 1
        st["forks"] += ctx.nforks
        st["checks"] += ctx.nchecks
        st["solver_s"] += ctx.t_solver
        tr = [list(x) for x in ctx.trace]
        while tr and tr[-1][1] + 1 >= tr[-1][0]:
            tr.pop()
        if not tr:
            break
        if st["paths"] >= max_paths or (budget_s and time.time() - t0 > budget_s):
            raise Incomplete("exploration budget exhausted after %d paths" % st["paths"])
        tr[-1][1] += 1
        prefix = tr
    st["results"] = results
    return st


# --------------------------------------------------------------------------
# symbolic scalars
# --------------------------------------------------------------------------
def _cur():
    c = Ctx.cur
    if c is None:
        raise Concretised("symbolic branch outside an exploration context")
    return c


def tb(o):
    if isinstance(o, SBool):
        return o.t
    if isinstance(o, z3.BoolRef):
        return o
    return z3.BoolVal(bool(o))


class SBool:
    __array_priority__ = 1000

    def __init__(self, t):
        self.t = t

    def __bool__(self):
        return _cur().decide_bool(self.t)

    def __eq__(self, o):
        return SBool(self.t == tb(o))

    def __ne__(self, o):
        return SBool(self.t != tb(o))

    def __invert__(self):
        return SBool(z3.Not(self.t))

    def __and__(self, o):
        return SBool(z3.And(self.t, tb(o)))

    def __or__(self, o):
        return SBool(z3.Or(self.t, tb(o)))

    def __xor__(self, o):
        return SBool(z3.Xor(self.t, tb(o)))

    __rand__ = __and__
    __ror__ = __or__
    __rxor__ = __xor__

    def __hash__(self):
        return hash(bool(self))

    def __repr__(self):
        return "SBool(%s)" % self.t


class SInt:
    """Symbolic integer (z3 Int)."""

    __array_priority__ = 1000

    def __init__(self, t):
        self.t = t

    def __index__(self):
        return _cur().decide_value(self.t)

    __int__ = __index__

    def __float__(self):
        # e.g. "%g" % length in an error message: one branch per feasible value (bounded ranges only)
        return float(self.__index__())

    def __hash__(self):
        return hash(self.__index__())

    @staticmethod
    def _o(o):
        if isinstance(o, SInt):
            return o.t
        if isinstance(o, (bool, np.bool_)):
            return z3.IntVal(int(o))
        if isinstance(o, (int, np.integer)):
            return z3.IntVal(int(o))
        return None

    # numpy defers binary operations with an ndarray to the reflected dunder below (element-wise)
    __array_ufunc__ = None

    def _elementwise(self, arr, name):
        out = np.empty(arr.shape, dtype=object)
        for idx in np.ndindex(*arr.shape):
            out[idx] = getattr(self, name)(arr[idx])
        return out

    def __eq__(self, o):
        if isinstance(o, np.ndarray):
            return self._elementwise(o, "__eq__")
        ot = self._o(o)
        if ot is None:
            return False
        if self.t.eq(ot):
            return True
        return SBool(self.t == ot)

    def __ne__(self, o):
        if isinstance(o, np.ndarray):
            return self._elementwise(o, "__ne__")
        ot = self._o(o)
        if ot is None:
            return True
        if self.t.eq(ot):
            return False
        return SBool(self.t != ot)

    def _cmp(self, o, f):
        ot = self._o(o)
        if ot is None:
            return NotImplemented
        return SBool(f(self.t, ot))

    def __lt__(self, o):
        return self._cmp(o, lambda a, b: a < b)

    def __le__(self, o):
        return self._cmp(o, lambda a, b: a <= b)

    def __gt__(self, o):
        return self._cmp(o, lambda a, b: a > b)

    def __ge__(self, o):
        return self._cmp(o, lambda a, b: a >= b)

    def _bin(self, o, f):
        ot = self._o(o)
        if ot is None:
            return NotImplemented
        return SInt(f(self.t, ot))

    def __add__(self, o):
        return self._bin(o, lambda a, b: a + b)

    def __radd__(self, o):
        return self._bin(o, lambda a, b: b + a)

    def __sub__(self, o):
        return self._bin(o, lambda a, b: a - b)

    def __rsub__(self, o):
        return self._bin(o, lambda a, b: b - a)

    def __mul__(self, o):
        return self._bin(o, lambda a, b: a * b)

    __rmul__ = __mul__

    def __neg__(self):
        return SInt(-self.t)

    def __bool__(self):
        return _cur().decide_bool(self.t != 0)

    def __repr__(self):
        return "SInt(%s)" % self.t


def _num(x):
    """exact z3 numeral of a python / numpy float"""
    f = float(x)
    if f != f or f in (math.inf, -math.inf):
        return None
    fr = Fraction(f)
    return z3.RealVal(str(fr.numerator) + "/" + str(fr.denominator)) if fr.denominator != 1 else z3.RealVal(fr.numerator)


def lift(x):
    """z3 Real term of a value, or None if it has none (NaN, non-number)."""
    if isinstance(x, SReal):
        return x.t
    if isinstance(x, (bool, np.bool_)):
        return z3.RealVal(int(x))
    if isinstance(x, (int, np.integer)):
        return z3.RealVal(int(x))
    if isinstance(x, (float, np.floating)):
        return _num(x)
    if isinstance(x, SInt):
        return z3.ToReal(x.t)
    if isinstance(x, z3.ArithRef):
        return x if x.is_real() else z3.ToReal(x)
    if isinstance(x, np.ndarray) and x.ndim == 0:
        return lift(x[()])
    return None


class SReal:
    """Symbolic real number (z3 Real term)."""

    __array_priority__ = 1000
    __slots__ = ("t",)

    def __init__(self, t):
        self.t = t

    def _bin(self, o, f):
        if isinstance(o, np.ndarray) and o.ndim > 0:
            return NotImplemented
        ot = lift(o)
        if ot is None:
            if isinstance(o, (float, np.floating)):  # NaN / inf poisons
                return float("nan") if o != o else NotImplemented
            return NotImplemented
        return SReal(f(self.t, ot))

    def __add__(self, o):
        return self._bin(o, lambda a, b: a + b)

    def __radd__(self, o):
        return self._bin(o, lambda a, b: b + a)

    def __sub__(self, o):
        return self._bin(o, lambda a, b: a - b)

    def __rsub__(self, o):
        return self._bin(o, lambda a, b: b - a)

    def __mul__(self, o):
        return self._bin(o, lambda a, b: a * b)

    def __rmul__(self, o):
        return self._bin(o, lambda a, b: b * a)

    def __truediv__(self, o):
        return self._bin(o, lambda a, b: a / b)

    def __rtruediv__(self, o):
        return self._bin(o, lambda a, b: b / a)

    def __pow__(self, o):
        if isinstance(o, (int, np.integer)) and 0 <= int(o) <= 4:
            r = z3.RealVal(1)
            for _ in range(int(o)):
                r = r * self.t
            return SReal(r)
        return NotImplemented

    def __neg__(self):
        return SReal(-self.t)

    def __pos__(self):
        return self

    def __abs__(self):
        return SReal(z3.If(self.t >= 0, self.t, -self.t))

    def _cmp(self, o, f):
        ot = lift(o)
        if ot is None:
            if isinstance(o, (float, np.floating)) and o != o:
                return False
            return NotImplemented
        return SBool(f(self.t, ot))

    def __lt__(self, o):
        return self._cmp(o, lambda a, b: a < b)

    def __le__(self, o):
        return self._cmp(o, lambda a, b: a <= b)

    def __gt__(self, o):
        return self._cmp(o, lambda a, b: a > b)

    def __ge__(self, o):
        return self._cmp(o, lambda a, b: a >= b)

    def __eq__(self, o):
        ot = lift(o)
        if ot is None:
            return False
        if self.t.eq(ot):
            return True
        return SBool(self.t == ot)

    def __ne__(self, o):
        ot = lift(o)
        if ot is None:
            return True
        if self.t.eq(ot):
            return False
        return SBool(self.t != ot)

    def __hash__(self):
        return hash(self.t)

    def __bool__(self):
        return _cur().decide_bool(self.t != 0)

    def __float__(self):
        raise Concretised("float() of symbolic real %s" % self.t)

    def __int__(self):
        raise Concretised("int() of symbolic real %s" % self.t)

    def __index__(self):
        raise Concretised("index() of symbolic real %s" % self.t)

    def __format__(self, spec):
        raise Concretised("format() of symbolic real %s" % self.t)

    def __repr__(self):
        return "S(%s)" % self.t

    # numpy calls these on object arrays
    def conjugate(self):
        return self

    def sqrt(self):
        raise Concretised("sqrt of symbolic real")


def ite(c, a, b):
    return SReal(z3.If(tb(c), lift(a), lift(b)))


def smin(a, b):
    if not isinstance(a, SReal) and not isinstance(b, SReal):
        return a if a <= b else b
    return SReal(z3.If(lift(a) <= lift(b), lift(a), lift(b)))


def smax(a, b):
    if not isinstance(a, SReal) and not isinstance(b, SReal):
        return a if a >= b else b
    return SReal(z3.If(lift(a) >= lift(b), lift(a), lift(b)))


def sym(name):
    return SReal(z3.Real(name))


def symarr(name, shape):
    a = np.empty(shape, dtype=object)
    for idx in np.ndindex(*shape):
        a[idx] = SReal(z3.Real(name + "".join("_%d" % i for i in idx)))
    return a


def is_sym(x):
    return isinstance(x, (SReal, SInt, SBool))


# --------------------------------------------------------------------------
# evaluation of terms at float values (consistency checks, replay)
# --------------------------------------------------------------------------
def model_to_floats(model, names=None):
    out = {}
    for d in model.decls():
        v = model[d]
        out[d.name()] = _val_to_py(v)
    return out


def _val_to_py(v):
    if z3.is_rational_value(v):
        fr = v.as_fraction()
        return float(fr)
    if z3.is_int_value(v):
        return v.as_long()
    if z3.is_algebraic_value(v):
        return float(v.approx(20).as_fraction())
    if z3.is_true(v):
        return True
    if z3.is_false(v):
        return False
    return None


def eval_float(t, env, cache=None):
    """Evaluate z3 term t with python floats; env: name -> float/int/bool."""
    if cache is None:
        cache = {}
    key = t.get_id()
    if key in cache:
        return cache[key]
    k = t.decl().kind()
    ch = t.children()
    if z3.is_rational_value(t):
        r = float(t.as_fraction())
    elif z3.is_int_value(t):
        r = t.as_long()
    elif z3.is_true(t):
        r = True
    elif z3.is_false(t):
        r = False
    elif k == z3.Z3_OP_UNINTERPRETED and not ch:
        name = t.decl().name()
        if name not in env:
            raise KeyError(name)
        r = env[name]
    elif k == z3.Z3_OP_UNINTERPRETED and t.decl().name() == "log":
        r = math.log(eval_float(ch[0], env, cache))
    else:
        a = [eval_float(c, env, cache) for c in ch]
        if k == z3.Z3_OP_ADD:
            r = sum(a[1:], a[0])
        elif k == z3.Z3_OP_SUB:
            r = a[0]
            for x in a[1:]:
                r = r - x
        elif k == z3.Z3_OP_MUL:
            r = a[0]
            for x in a[1:]:
                r = r * x
        elif k in (z3.Z3_OP_DIV, z3.Z3_OP_IDIV):
            if k == z3.Z3_OP_IDIV:
                r = a[0] // a[1]
            else:
                r = a[0] / a[1] if a[1] != 0 else float("nan")
        elif k == z3.Z3_OP_UMINUS:
            r = -a[0]
        elif k == z3.Z3_OP_ITE:
            r = a[1] if a[0] else a[2]
        elif k == z3.Z3_OP_LE:
            r = a[0] <= a[1]
        elif k == z3.Z3_OP_LT:
            r = a[0] < a[1]
        elif k == z3.Z3_OP_GE:
            r = a[0] >= a[1]
        elif k == z3.Z3_OP_GT:
            r = a[0] > a[1]
        elif k == z3.Z3_OP_EQ:
            r = a[0] == a[1]
        elif k == z3.Z3_OP_DISTINCT:
            r = len(set(a)) == len(a)
        elif k == z3.Z3_OP_AND:
            r = all(a)
        elif k == z3.Z3_OP_OR:
            r = any(a)
        elif k == z3.Z3_OP_NOT:
            r = not a[0]
        elif k == z3.Z3_OP_TO_REAL:
            r = float(a[0])
        elif k == z3.Z3_OP_IMPLIES:
            r = (not a[0]) or a[1]
        elif k == z3.Z3_OP_XOR:
            r = bool(a[0]) != bool(a[1])
        else:
            raise NotImplementedError("eval_float: %s" % t.decl())
    cache[key] = r
    return r


def value_float(x, env, cache=None):
    """float value of an array element (SReal / number / NaN) under env"""
    if isinstance(x, SReal):
        return eval_float(x.t, env, cache)
    if isinstance(x, SInt):
        return eval_float(x.t, env, cache)
    if isinstance(x, SBool):
        return eval_float(x.t, env, cache)
    return x
