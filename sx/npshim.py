"""numpy environment stubs for symbolic runs (DESIGN.md 2.1).

A few numpy entry points have no object loop or would fork once per element.
While a symbolic run is active they are replaced *on the numpy module* by
versions that fall through to the original for non-object input.  Nothing in
xgcm is patched.  Every shim is validated against the real numpy function on
concrete inputs by ``selfcheck()`` (run once per check process).
"""
import contextlib

import numpy as np
import z3

# everything that wraps numpy ufuncs at import time must be imported before a shim is installed
import dask.array  # noqa: F401
import xarray  # noqa: F401

from .core import SBool, SReal, Concretised, lift, smax, smin, tb

_ORIG = {}
NAMES = ["min", "max", "amin", "amax", "nanmin", "nanmax", "isnan", "interp", "log"]
# np.minimum / np.maximum are ufunc objects used internally by numpy (np.min -> np.minimum.reduce): never patched;
# on object arrays they compare element-wise through SReal.__lt__ -> SBool.__bool__, i.e. they fork (sound).


def _isobj(a):
    return isinstance(a, np.ndarray) and a.dtype == object or isinstance(a, SReal)


def _has_sym(a):
    if isinstance(a, SReal):
        return True
    if isinstance(a, np.ndarray) and a.dtype == object:
        return any(isinstance(x, SReal) for x in a.flat)
    if isinstance(a, (list, tuple)):
        return any(_has_sym(x) for x in a)
    return False


def _reduce(a, axis, pick):
    a = np.asarray(a)
    if axis is None:
        flat = list(a.flat)
        acc = flat[0]
        for v in flat[1:]:
            acc = pick(acc, v)
        return acc
    moved = np.moveaxis(a, axis, -1)
    out = np.empty(moved.shape[:-1], dtype=object)
    for idx in np.ndindex(*out.shape):
        row = moved[idx]
        acc = row[0]
        for v in row[1:]:
            acc = pick(acc, v)
        out[idx] = acc
    return out


def _reduce_kw(a, axis, pick, kw):
    """reduction over an int / tuple axis with optional keepdims (dask passes axis=(k,), keepdims=True)"""
    keep = kw.get("keepdims", False) is True
    a = np.asarray(a)
    if axis is None:
        r = _reduce(a, None, pick)
        if keep:
            out = np.empty((1,) * a.ndim, dtype=object)
            out[(0,) * a.ndim] = r
            return out
        return r
    axes = sorted({ax % a.ndim for ax in (axis if isinstance(axis, tuple) else (axis,))}, reverse=True)
    r = a
    for ax in axes:
        r = _reduce(r, ax, pick)
    if keep:
        for ax in sorted(axes):
            r = np.expand_dims(r, ax)
    return r


def _plain(kw):
    return all(k == "keepdims" or v is None for k, v in kw.items()) and kw.get("keepdims", False) in (False, True)


def s_min(a, axis=None, *args, **kw):
    if _has_sym(a) and not args and _plain(kw):
        return _reduce_kw(a, axis, smin, kw)
    return _ORIG["min"](a, axis, *args, **kw)


def s_max(a, axis=None, *args, **kw):
    if _has_sym(a) and not args and _plain(kw):
        return _reduce_kw(a, axis, smax, kw)
    return _ORIG["max"](a, axis, *args, **kw)


def _elementwise(a, b, pick):
    a, b = np.asarray(a, dtype=object), np.asarray(b, dtype=object)
    a, b = np.broadcast_arrays(a, b)
    out = np.empty(a.shape, dtype=object)
    for idx in np.ndindex(*a.shape):
        out[idx] = pick(a[idx], b[idx])
    return out if out.ndim else out[()]


def s_minimum(a, b, *args, **kw):
    if (_has_sym(a) or _has_sym(b)) and not args and not kw:
        return _elementwise(a, b, smin)
    return _ORIG["minimum"](a, b, *args, **kw)


def s_maximum(a, b, *args, **kw):
    if (_has_sym(a) or _has_sym(b)) and not args and not kw:
        return _elementwise(a, b, smax)
    return _ORIG["maximum"](a, b, *args, **kw)


def _isnan_scalar(x):
    if isinstance(x, SReal):
        return False  # symbolic inputs are finite reals (assumption)
    try:
        return bool(x != x)
    except Exception:
        return False


def s_isnan(x, *args, **kw):
    if _isobj(x):
        if isinstance(x, SReal):
            return False
        out = np.empty(x.shape, dtype=bool)
        for idx in np.ndindex(*x.shape):
            out[idx] = _isnan_scalar(x[idx])
        return out
    return _ORIG["isnan"](x, *args, **kw)


def s_nanmin(a, axis=None, *args, **kw):
    if _has_sym(a):
        a = np.asarray(a, dtype=object)
        if axis is None:
            vals = [v for v in a.flat if not _isnan_scalar(v)]
            return _reduce(np.array(vals, dtype=object), None, smin)
        raise Concretised("nanmin with axis on symbolic array")
    return _ORIG["nanmin"](a, axis, *args, **kw)


def s_nanmax(a, axis=None, *args, **kw):
    if _has_sym(a):
        a = np.asarray(a, dtype=object)
        if axis is None:
            vals = [v for v in a.flat if not _isnan_scalar(v)]
            return _reduce(np.array(vals, dtype=object), None, smax)
        raise Concretised("nanmax with axis on symbolic array")
    return _ORIG["nanmax"](a, axis, *args, **kw)


_LOG = z3.Function("log", z3.RealSort(), z3.RealSort())
LOG_ARGS = []  # terms log was applied to during the current run (for monotonicity axioms)


def s_log(x, *args, **kw):
    if _has_sym(x):
        def one(v):
            t = lift(v)
            LOG_ARGS.append(t)
            return SReal(_LOG(t))
        if isinstance(x, SReal):
            return one(x)
        out = np.empty(x.shape, dtype=object)
        for idx in np.ndindex(*x.shape):
            out[idx] = one(x[idx])
        return out
    return _ORIG["log"](x, *args, **kw)


def log_axioms():
    """strict monotonicity of log on the occurring argument terms (positive arguments assumed by caller)"""
    ax = []
    seen = []
    for t in LOG_ARGS:
        if not any(t.eq(u) for u in seen):
            seen.append(t)
    for i in range(len(seen)):
        for j in range(i + 1, len(seen)):
            a, b = seen[i], seen[j]
            ax.append((a < b) == (_LOG(a) < _LOG(b)))
            ax.append((a == b) == (_LOG(a) == _LOG(b)))
    return ax


def s_interp(x, xp, fp, left=None, right=None, period=None):
    """Functional model of numpy.interp's documented contract for increasing xp:
    clamped piecewise-linear interpolation.  For x in [xp[k], xp[k+1]] returns
    fp[k] + (x-xp[k])*(fp[k+1]-fp[k])/(xp[k+1]-xp[k]); x<xp[0] -> fp[0];
    x>xp[-1] -> fp[-1]; x == xp[k] -> fp[k] exactly."""
    if not (_has_sym(x) or _has_sym(xp) or _has_sym(fp)) or left is not None or right is not None or period is not None:
        return _ORIG["interp"](x, xp, fp, left, right, period)
    xs = np.atleast_1d(np.asarray(x, dtype=object))
    xp = list(np.asarray(xp, dtype=object))
    fp = list(np.asarray(fp, dtype=object))
    n = len(xp)
    out = np.empty(xs.shape, dtype=object)
    for idx in np.ndindex(*xs.shape):
        t = lift(xs[idx])
        # build nested If from the right end
        res = lift(fp[n - 1])
        for k in range(n - 2, -1, -1):
            x0, x1, f0, f1 = lift(xp[k]), lift(xp[k + 1]), lift(fp[k]), lift(fp[k + 1])
            seg = f0 + (t - x0) * (f1 - f0) / (x1 - x0)
            res = z3.If(t < x1, seg, res)
        res = z3.If(t <= lift(xp[0]), lift(fp[0]), res)
        res = z3.If(t >= lift(xp[n - 1]), lift(fp[n - 1]), res)
        out[idx] = SReal(res)
    return out if np.ndim(x) else out[0]


_SHIMS = {
    "min": s_min, "amin": s_min, "max": s_max, "amax": s_max,
    "nanmin": s_nanmin, "nanmax": s_nanmax,
    "isnan": s_isnan, "interp": s_interp, "log": s_log,
}


# ---- dask environment stubs: both only change what dask does for dtype=object (where it fails outright)
_DASK_ORIG = {}


def _install_dask():
    import dask.array.core as dac

    _DASK_ORIG["apply_infer_dtype"] = dac.apply_infer_dtype
    _DASK_ORIG["auto_chunks"] = dac.auto_chunks

    def apply_infer_dtype(func, args, kwargs, funcname, suggest_dtype="dtype", nout=None):
        # dask infers result dtypes by calling func on np.empty(..., dtype=object) (None / None -> TypeError);
        # arithmetic on object arrays yields object arrays
        if any(getattr(a, "dtype", None) == object for a in args):
            return np.dtype(object) if nout is None else tuple(np.dtype(object) for _ in range(nout))
        return _DASK_ORIG["apply_infer_dtype"](func, args, kwargs, funcname, suggest_dtype, nout)

    def auto_chunks(chunks, shape, limit, dtype, previous_chunks=None):
        # dask refuses to auto-chunk dtype=object (unknown item size): chunk as for float64, which is what
        # the same call does on the float64 array of the real run
        if np.dtype(dtype).hasobject:
            dtype = np.dtype("f8")
        return _DASK_ORIG["auto_chunks"](chunks, shape, limit, dtype, previous_chunks)

    dac.apply_infer_dtype = apply_infer_dtype
    dac.auto_chunks = auto_chunks
    for modname in ("dask.array.blockwise", "dask.array.routines", "dask.array.gufunc", "dask.array.ufunc", "dask.array.reductions"):
        try:
            m = __import__(modname, fromlist=["x"])
        except Exception:
            continue
        if getattr(m, "apply_infer_dtype", None) is _DASK_ORIG["apply_infer_dtype"]:
            _DASK_ORIG.setdefault("mods", []).append(m)
            m.apply_infer_dtype = apply_infer_dtype


def _uninstall_dask():
    import dask.array.core as dac
    if not _DASK_ORIG:
        return
    dac.apply_infer_dtype = _DASK_ORIG["apply_infer_dtype"]
    dac.auto_chunks = _DASK_ORIG["auto_chunks"]
    for m in _DASK_ORIG.get("mods", []):
        m.apply_infer_dtype = _DASK_ORIG["apply_infer_dtype"]
    _DASK_ORIG.clear()


def install():
    if _ORIG:
        return
    for n in NAMES:
        _ORIG[n] = getattr(np, n)
    for n, f in _SHIMS.items():
        setattr(np, n, f)
    _install_dask()


def uninstall():
    for n, f in _ORIG.items():
        setattr(np, n, f)
    _ORIG.clear()
    _uninstall_dask()


@contextlib.contextmanager
def active():
    install()
    try:
        yield
    finally:
        uninstall()


def selfcheck(seed=0):
    """Validate every shim against the real numpy function on concrete inputs
    (shim on SReal-wrapped constants, evaluated, vs numpy on floats)."""
    from .core import eval_float
    rng = np.random.RandomState(seed)
    n_ok = 0
    was = bool(_ORIG)
    install()
    try:
        def wrap(a):
            o = np.empty(np.shape(a), dtype=object)
            for idx in np.ndindex(*np.shape(a)):
                o[idx] = SReal(lift(float(a[idx])))
            return o

        def val(o):
            return np.array([eval_float(lift(v), {}) for v in np.asarray(o, dtype=object).flat]).reshape(np.shape(o))

        for _ in range(20):
            a = rng.randint(-4, 5, size=(3, 4)).astype(float)
            b = rng.randint(-4, 5, size=(3, 4)).astype(float)
            assert np.allclose(val(np.min(wrap(a), axis=-1)), _ORIG["min"](a, axis=-1))
            assert np.allclose(val(np.max(wrap(a), axis=0)), _ORIG["max"](a, axis=0))
            assert np.allclose(val(np.nanmin(wrap(a))), _ORIG["nanmin"](a))
            assert np.allclose(val(np.nanmax(wrap(a))), _ORIG["nanmax"](a))
            xp = np.cumsum(rng.randint(1, 4, size=5)).astype(float)
            fp = rng.randint(-5, 6, size=5).astype(float)
            x = np.concatenate([rng.uniform(xp[0] - 2, xp[-1] + 2, size=6), xp, [xp[0] - 1, xp[-1] + 1]])
            assert np.allclose(val(np.interp(wrap(x), wrap(xp), wrap(fp))), _ORIG["interp"](x, xp, fp))
            n_ok += 5
        assert not np.isnan(wrap(np.ones(3))).any()
        o = np.array([SReal(z3.RealVal(1)), float("nan")], dtype=object)
        assert list(np.isnan(o)) == [False, True]
        n_ok += 2
    finally:
        if not was:
            uninstall()
    return n_ok
