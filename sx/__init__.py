from .core import *  # noqa
from . import npshim  # noqa
