"""re2smt: Python regular expressions (as used by xgcm.grid_ufunc) -> z3 regular expressions.

The pattern string is read from the imported module, parsed with the standard library's own
parser (re._parser) and translated node by node.  Supported: literals, character classes,
ranges, negated classes, \\w \\d \\s (ASCII only -- stated restriction), '.', alternation, groups
(capturing or not), greedy/lazy repeats (language-equivalent), ^ at the start and $ at the end.
'$' is modelled faithfully: it also matches before one trailing newline.
"""
import re

import z3

try:
    from re import _parser as sre_parse
    from re import _constants as C
except ImportError:  # python < 3.11
    import sre_parse
    import sre_constants as C


class Unsupported(Exception):
    pass


def _chars(s):
    return z3.Union(*[z3.Re(ch) for ch in s]) if len(s) > 1 else z3.Re(s)


WORD = z3.Union(z3.Range("a", "z"), z3.Range("A", "Z"), z3.Range("0", "9"), z3.Re("_"))
DIGIT = z3.Range("0", "9")
SPACE = _chars(" \t\n\r\x0b\x0c")
ANY1 = z3.AllChar(z3.ReSort(z3.StringSort()))


def _category(cat):
    if cat == C.CATEGORY_WORD:
        return WORD
    if cat == C.CATEGORY_DIGIT:
        return DIGIT
    if cat == C.CATEGORY_SPACE:
        return SPACE
    if cat == C.CATEGORY_NOT_WORD:
        return z3.Diff(ANY1, WORD)
    if cat == C.CATEGORY_NOT_DIGIT:
        return z3.Diff(ANY1, DIGIT)
    if cat == C.CATEGORY_NOT_SPACE:
        return z3.Diff(ANY1, SPACE)
    raise Unsupported(str(cat))


def _seq(items):
    parts = []
    for op, av in items:
        parts.append(_node(op, av))
    if not parts:
        return z3.Re("")
    return z3.Concat(*parts) if len(parts) > 1 else parts[0]


def _node(op, av):
    if op == C.LITERAL:
        return z3.Re(chr(av))
    if op == C.NOT_LITERAL:
        return z3.Diff(ANY1, z3.Re(chr(av)))
    if op == C.ANY:
        return z3.Diff(ANY1, z3.Re("\n"))
    if op == C.IN:
        neg = False
        alts = []
        for o, a in av:
            if o == C.NEGATE:
                neg = True
            elif o == C.LITERAL:
                alts.append(z3.Re(chr(a)))
            elif o == C.RANGE:
                alts.append(z3.Range(chr(a[0]), chr(a[1])))
            elif o == C.CATEGORY:
                alts.append(_category(a))
            else:
                raise Unsupported(str(o))
        u = z3.Union(*alts) if len(alts) > 1 else alts[0]
        return z3.Diff(ANY1, u) if neg else u
    if op == C.BRANCH:
        alts = [_seq(list(b)) for b in av[1]]
        return z3.Union(*alts) if len(alts) > 1 else alts[0]
    if op == C.SUBPATTERN:
        return _seq(list(av[3]))
    if op in (C.MAX_REPEAT, C.MIN_REPEAT):
        lo, hi, sub = av
        r = _seq(list(sub))
        if hi == C.MAXREPEAT:
            if lo == 0:
                return z3.Star(r)
            if lo == 1:
                return z3.Plus(r)
            return z3.Concat(z3.Loop(r, lo, lo), z3.Star(r))
        return z3.Loop(r, lo, hi)
    raise Unsupported(str(op))


def translate(pattern, fullmatch=False, how=None, flags=0):
    """z3 regex of the language {s : re.<how>(pattern, s)} with how in match / fullmatch / search (fullmatch=True is
    the older spelling of how='fullmatch').  Anchors are allowed only as ^ at the start and $ at the end; '$' without
    re.MULTILINE also matches before one trailing newline (modelled); flags other than re.UNICODE are refused."""
    how = how or ("fullmatch" if fullmatch else "match")
    if flags & ~int(re.UNICODE):
        raise Unsupported("regex flags %r" % flags)
    items = list(sre_parse.parse(pattern))
    begin = False
    if items and items[0] == (C.AT, C.AT_BEGINNING):
        items = items[1:]
        begin = True
    end = False
    if items and items[-1] == (C.AT, C.AT_END):
        items = items[:-1]
        end = True
    for op, av in items:
        if op == C.AT:
            raise Unsupported("anchor inside the pattern")
    body = _seq(items)
    if how == "fullmatch":
        # the whole string must be consumed; '$' can still only sit at the end or before a final newline, and the
        # newline would have to be consumed by the body, so the language is that of the body
        return body
    if how == "search" and not begin:
        body = z3.Concat(z3.Star(ANY1), body)
    elif how not in ("match", "search"):
        raise Unsupported("re.%s" % how)
    if not end:
        return z3.Concat(body, z3.Star(ANY1))  # without $ any suffix is accepted
    return z3.Concat(body, z3.Option(z3.Re("\n")))


def member(regex, s):
    return z3.is_true(z3.simplify(z3.InRe(z3.StringVal(s), regex)))
