"""Oracles for staggered 1-D stencils, padding and cumsum, written from the
property statements (C01, C02, C09).  Index arithmetic over Python lists of the
*input symbols*; no xarray, no numpy padding, no xgcm import.

Geometry: an axis has N cells 0..N-1 and N+1 cell edges 0..N.  Positions:
  center: N values, value i sits in cell i
  left  : N values, value i sits on edge i       (edges 0..N-1)
  right : N values, value i sits on edge i+1     (edges 1..N)
  outer : N+1 values on edges 0..N
  inner : N-1 values on edges 1..N-1
"""
import numpy as np

from sx.core import SReal, smax, smin

POS = ["center", "left", "right", "inner", "outer"]
FALLBACK = {"center": ("left", "right", "outer", "inner"), "left": ("center",), "right": ("center",),
            "outer": ("center",), "inner": ("center",)}


def plen(pos, N):
    return {"center": N, "left": N, "right": N, "inner": N - 1, "outer": N + 1}[pos]


def edges_held(pos, N):
    return {"left": list(range(0, N)), "right": list(range(1, N + 1)), "outer": list(range(0, N + 1)),
            "inner": list(range(1, N))}[pos]


def spec_default_shift(pos_from, layout):
    """documented default shift table: first available of the fallbacks"""
    for p in FALLBACK[pos_from]:
        if p in layout:
            return p
    return None


def valid_shift(frm, to):
    return frm != to and (frm == "center" or to == "center")


def spec_pad1d(vals, lo, hi, rule, fill):
    """vals extended by lo cells below and hi above under the rule"""
    n = len(vals)

    def at(k):
        if 0 <= k < n:
            return vals[k]
        if rule == "fill":
            return fill
        if rule == "extend":
            return vals[0] if k < 0 else vals[-1]
        return vals[k % n]  # periodic wrap

    return [at(k) for k in range(-lo, n + hi)]


OPS = {
    "diff": lambda lo, hi: hi - lo,
    "interp": lambda lo, hi: (lo + hi) / 2,
    "min": lambda lo, hi: smin(lo, hi),
    "max": lambda lo, hi: smax(lo, hi),
}


def spec_1d(vals, frm, to, N, op, rule, fill):
    """values at position `to` from values `vals` at position `frm` (one of them is center):
    op of the two input values adjacent to each target point; beyond the ends: the rule."""
    f = OPS[op]

    def ext(seq, first_index):
        def at(k):
            j = k - first_index
            if 0 <= j < len(seq):
                return seq[j]
            if rule == "fill":
                return fill
            if rule == "extend":
                return seq[0] if j < 0 else seq[-1]
            return seq[j % len(seq)]
        return at

    if frm == "center":
        at = ext(vals, 0)
        # target edge e lies between cells e-1 and e
        return [f(at(e - 1), at(e)) for e in edges_held(to, N)]
    held = edges_held(frm, N)
    at = ext(vals, held[0])
    # target cell i lies between edges i and i+1
    return [f(at(i), at(i + 1)) for i in range(N)]


def spec_cumsum(vals, frm, to, N, rule, fill):
    """running sum at the shifted position: the value at a target point is the sum of all input
    values lying strictly before it along the axis.  A target point that has no input value before
    it (the leading value of targets that start before the first input value) is supplied by the
    boundary rule applied to the target array itself: the fill value, the nearest target value
    (extend), or the last target value (wrap)."""
    n = len(vals)
    cs = []
    acc = None
    for v in vals:
        acc = v if acc is None else acc + v
        cs.append(acc)

    def xin(j):  # position of input value j in half-cell units
        return 2 * j + 1 if frm == "center" else 2 * edges_held(frm, N)[j]

    def xout(k):
        return 2 * k + 1 if to == "center" else 2 * edges_held(to, N)[k]

    rest, nlead = [], 0
    for k in range(plen(to, N)):
        cnt = sum(1 for j in range(n) if xin(j) < xout(k))
        if cnt == 0:
            nlead += 1
        else:
            rest.append(cs[cnt - 1])
    assert nlead <= 1
    if nlead:
        lead = fill if rule == "fill" else (rest[0] if rule == "extend" else rest[-1])
        return [lead] + rest
    return rest


def apply_along(arr, axis, fn):
    """apply fn(list)->list along `axis` of an ndarray (object or float); returns ndarray"""
    arr = np.asarray(arr)
    moved = np.moveaxis(arr, axis, -1)
    rows = {}
    newlen = None
    for idx in np.ndindex(*moved.shape[:-1]):
        r = fn(list(moved[idx]))
        rows[idx] = r
        newlen = len(r)
    if newlen is None:
        newlen = 0
    out = np.empty(moved.shape[:-1] + (newlen,), dtype=arr.dtype if arr.dtype != object else object)
    if arr.dtype != object:
        out = out.astype(float)
    for idx, r in rows.items():
        for k, v in enumerate(r):
            out[idx + (k,)] = v
    return np.moveaxis(out, -1, axis)
