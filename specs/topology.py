"""Oracles for face-connected grids (C03, C04, C05, C12), written from the statements.

A *decomposition* cuts a global Kx*N x Ky*N domain into square faces, each with an
element of the dihedral group D4 as orientation: (ex, ey) are the global unit
vectors of the face's local +X and +Y axes.  From the geometry alone we derive the
affine map face-local (i, j) -> global cell and the face_connections table (or
None when a junction is not expressible in the format).  No xgcm import.

Link semantics assumed (the ones stated in C05): a link (g, axis_g, reverse) on side
`side` of axis `a` of face f says: crossing that edge of f enters face g along
g's axis_g; non-reversed joins f's right edge to g's left edge (and left to right),
reversed joins like edges; the along-edge position is the same for a same-axis link
and for an axis-swapping reversed link, mirrored for an axis-swapping non-reversed link.
"""
import itertools

UNIT = [(1, 0), (0, 1), (-1, 0), (0, -1)]
D4 = [(ex, ey) for ex in UNIT for ey in UNIT if ex[0] * ey[0] + ex[1] * ey[1] == 0]
ROT = [(ex, ey) for (ex, ey) in D4 if ex[0] * ey[1] - ex[1] * ey[0] == 1]
OTHER = {"X": "Y", "Y": "X"}


def neg(v):
    return (-v[0], -v[1])


def sgn(e):
    return 1 if (e[0] + e[1]) > 0 else -1


class Decomp:
    def __init__(self, Kx, Ky, N, orient, periodic):
        self.Kx, self.Ky, self.N, self.orient, self.periodic = Kx, Ky, N, [tuple(map(tuple, o)) for o in orient], periodic
        self.F = Kx * Ky
        self.W, self.H = Kx * N, Ky * N

    def origin(self, f):
        ty, tx = divmod(f, self.Kx)
        ex, ey = self.orient[f]
        N = self.N
        ox = tx * N + (N - 1 if (ex[0] < 0 or ey[0] < 0) else 0)
        oy = ty * N + (N - 1 if (ex[1] < 0 or ey[1] < 0) else 0)
        return ox, oy

    def to_global(self, f, i, j):
        ox, oy = self.origin(f)
        ex, ey = self.orient[f]
        return ox + i * ex[0] + j * ey[0], oy + i * ex[1] + j * ey[1]

    def wrap(self, gx, gy):
        if self.periodic:
            return gx % self.W, gy % self.H
        if 0 <= gx < self.W and 0 <= gy < self.H:
            return gx, gy
        return None

    def face_of(self, gx, gy):
        return (gy // self.N) * self.Kx + gx // self.N

    def links(self):
        """face_connections table {face: {axis: (left, right)}} or None if not expressible"""
        N = self.N
        table = {f: {} for f in range(self.F)}
        for f in range(self.F):
            ex, ey = self.orient[f]
            for axname, n, t in (("X", ex, ey), ("Y", ey, ex)):
                pair = []
                for side in (0, 1):
                    s = 1 if side else -1
                    i, j = ((N if side else -1), 0) if axname == "X" else (0, (N if side else -1))
                    w = self.wrap(*self.to_global(f, i, j))
                    if w is None:
                        pair.append(None)
                        continue
                    g = self.face_of(*w)
                    exg, eyg = self.orient[g]
                    out_dir = (s * n[0], s * n[1])
                    if out_dir == exg:
                        ax_g, rev = "X", (side == 0)
                    elif out_dir == neg(exg):
                        ax_g, rev = "X", (side == 1)
                    elif out_dir == eyg:
                        ax_g, rev = "Y", (side == 0)
                    else:
                        ax_g, rev = "Y", (side == 1)
                    tg = eyg if ax_g == "X" else exg
                    same, mirrored = (tg == t), (tg == neg(t))
                    ok = same if (ax_g == axname or rev) else mirrored
                    if not ok:
                        return None
                    pair.append((g, ax_g, rev))
                table[f][axname] = tuple(pair)
        return table


def expressible_orientations(Kx, Ky, N, periodic, group=D4, only_nonreversed=False):
    out = []
    for orient in itertools.product(group, repeat=Kx * Ky):
        dec = Decomp(Kx, Ky, N, orient, periodic)
        tb = dec.links()
        if tb is None:
            continue
        if only_nonreversed and any(l is not None and l[2] for d in tb.values() for pair in d.values() for l in pair):
            continue
        out.append(orient)
    return out


# ------------------------------------------------------------------ C05 halo
def make_two_face_table(side, ax, swapped, rev):
    """face 0's `side` edge of axis ax linked to face 1 (with the reciprocal link)"""
    ax1 = OTHER[ax] if swapped else ax
    side1 = side if rev else 1 - side
    t = {0: {ax: [None, None]}, 1: {ax1: [None, None]}}
    t[0][ax][side] = (1, ax1, rev)
    t[1][ax1][side1] = (0, ax, rev)
    return {f: {a: tuple(p) for a, p in d.items()} for f, d in t.items()}


def halo_source(table, f, ax, side, k, p, N):
    """source of the halo cell of face f beyond `side` of axis ax at depth k (1-based), along-edge position p:
    (g, normal_index, along_index, normal_axis_of_g, swapped, rev) or None if the edge has no link"""
    link = table.get(f, {}).get(ax, (None, None))[side]
    if link is None:
        return None
    g, axg, rev = link
    swapped = axg != ax
    hits_left_edge_of_g = (side == 1) != rev
    ni = (k - 1) if hits_left_edge_of_g else (N - k)
    ai = (N - 1 - p) if (swapped and not rev) else p
    return g, ni, ai, axg, swapped, rev


def halo_sign(comp, a, swapped, rev):
    """sign applied to vector component `comp` (axis name of the *target* face) fetched across a link on axis a"""
    s_n = -1 if rev else 1
    s_t = -1 if (swapped and not rev) else 1
    return s_n if comp == a else s_t
