"""C10 The metric applied is the one registered for the array's position and axes."""
import itertools
import sys
import warnings

import numpy as np
import xarray as xr

from lib import harness
from specs.stencil import apply_along, spec_1d, spec_cumsum

ID = "C10"
FUNCTIONS = ["xgcm.grid:Grid.set_metrics", "xgcm.grid:Grid.get_metric", "xgcm.metrics:iterate_axis_combinations",
             "xgcm.grid:Grid.interp_like", "xgcm.grid:Grid.integrate", "xgcm.grid:Grid.average", "xgcm.grid:Grid.derivative",
             "xgcm.grid:Grid.cumint", "xgcm.grid:Grid._1d_grid_ufunc_dispatch", "xgcm.grid:Grid.cumsum"]
BOUNDS = {
    "quick": {"selection": "2 axes with positions X {center,left}, Y {center,right}; pool of 8 metric variables (2 per single axis, 4 areas); every registry of <= 3 variables (92), registered in pool order; 4 array positions x requests (X),(Y),(X,Y),(Y,X); N=2; data and every metric cell symbolic (positive)",
              "single axis, 3-5 positions": "layouts {c,l,o},{c,r,i},{c,l,r},{c,i,o},{all five}; metrics registered at every 1-2 of the positions; array at every position; N in {2,3}",
              "operations": "integrate (all axis orders), average (constant field and general), derivative, metric_weighted diff/interp/min/cumsum (list, tuple, bare-name and per-axis-mapping spellings, the last in a two-axis call) on a fully registered 2-axis grid, N in {2,3}"},
    "thorough": {"selection": "+ reversed registration order; 3 axes X,Y (center,left), Z (center,outer): pool of 26, every registry of <= 2 variables and a seeded sample of 600 registries of 3-4; 8 array positions x 7 axis subsets",
                 "operations": "+ 3 axes"},
}
OUTSIDE = [">3 axes", "metrics with extra (non-axis) dimensions", "spurious interpolation warnings (the statement does not forbid them)", "float rounding"]
ASSUMPTIONS = ["metrics strictly positive", "data finite"]
SWEEPS = {"int64": 2}
POSN = {"X": ("center", "left"), "Y": ("center", "right"), "Z": ("center", "outer")}
DIM = {("X", "center"): "xc", ("X", "left"): "xg", ("Y", "center"): "yc", ("Y", "right"): "yg", ("Z", "center"): "zc", ("Z", "outer"): "zo"}
DIMPOS = {v: k for k, v in DIM.items()}


def plen(p, N):
    return N + 1 if p == "outer" else N


def pool(axes):
    """name -> (axes tuple, dims tuple)"""
    P = {}
    for k in range(1, len(axes) + 1):
        for sub in itertools.combinations(axes, k):
            for pos in itertools.product(*[POSN[a] for a in sub]):
                name = "m" + "".join(a.lower() for a in sub) + "_" + "".join(p[0] for p in pos)
                P[name] = (sub, tuple(DIM[(a, p)] for a, p in zip(sub, pos))[::-1])
    return P


def cases(tier):
    import os
    import random
    out = []
    P2 = list(pool(["X", "Y"]))
    regs = [c for k in (1, 2, 3) for c in itertools.combinations(P2, k)]
    for r in regs:
        out.append(dict(kind="sel", axes=["X", "Y"], reg=list(r), N=2))
        if tier == "thorough" and len(r) > 1:
            out.append(dict(kind="sel", axes=["X", "Y"], reg=list(r)[::-1], N=2))
    # three axes: registries offering partitions of different block sizes ("largest block first")
    for reg in (["mxy_cc", "mx_c", "my_c", "mz_c"], ["mxz_cc", "mx_c", "my_c", "mz_c"], ["myz_cc", "mx_c", "my_c", "mz_c"], ["mxy_cc", "mz_c"],
                ["mxy_lc", "mx_c", "my_r", "mz_c"], ["mxy_cc", "myz_cc", "mx_c", "my_c", "mz_c"], ["mx_c", "my_c", "mz_c"], ["mx_l", "my_c", "mz_o"],
                ["mxyz_ccc", "mxy_cc", "mz_c"], ["mxy_cc", "mz_o", "mx_l"], ["mx_c", "my_c"], ["mxz_lc", "my_r"]):
        out.append(dict(kind="sel", axes=["X", "Y", "Z"], reg=reg, N=2))
    if tier == "thorough":
        rng = random.Random(int(os.environ.get("VERIF_SEED", "0")))
        P3 = list(pool(["X", "Y", "Z"]))
        regs3 = [c for k in (1, 2) for c in itertools.combinations(P3, k)]
        big = [tuple(rng.sample(P3, k)) for k in (3, 4) for _ in range(300)]
        for r in regs3 + big:
            out.append(dict(kind="sel", axes=["X", "Y", "Z"], reg=list(r), N=2))
    # one axis with three or more positions: the array's position is then not "the other one", so the interpolation
    # must really go to the array's position (not to the axis' default shift)
    for layout in (("center", "left", "outer"), ("center", "right", "inner"), ("center", "left", "right"), ("center", "inner", "outer"), ("center", "left", "right", "inner", "outer")):
        for k in (1, 2):
            for reg in itertools.combinations(layout, k):
                for N in ((2, 3) if len(layout) == 3 else (3,)):
                    out.append(dict(kind="sel1", layout=list(layout), reg=list(reg), N=N))
    for N in (2, 3):
        for axes in ([["X", "Y"]] if tier == "quick" else [["X", "Y"], ["X", "Y", "Z"]]):
            npos = 2 ** len(axes)
            for pi in range(npos):
                out.append(dict(kind="ops", axes=axes, N=N, pos=pi))
    return out


def build(W, axes, N, names=None):
    P = pool(axes)
    coords = {}
    for a in axes:
        for p in POSN[a]:
            coords[DIM[(a, p)]] = np.arange(plen(p, N)) * 1.0
    ds = xr.Dataset(coords=coords)
    vals = {}
    for name, (sub, dims) in P.items():
        if names is not None and name not in names:
            continue
        arr = W.data(name, tuple(ds.sizes[d] for d in dims), gen=lambda r: r.randint(2, 24) / 4.0)
        if W.sym:
            for x in arr.ravel():
                W.assume(x.t > 0)
        ds[name] = (dims, arr)
        vals[name] = arr
    return ds, P, vals


def interp_extend(vals, frm, to):
    """centre <-> left/outer interpolation with nearest-value extension"""
    n = len(vals)
    if frm == to:
        return list(vals)
    if frm == "center" and to == "left":
        return [(vals[max(i - 1, 0)] + vals[i]) / 2 for i in range(n)]
    if frm == "left" and to == "center":
        return [(vals[i] + vals[min(i + 1, n - 1)]) / 2 for i in range(n)]
    if frm == "center" and to == "right":
        return [(vals[i] + vals[min(i + 1, n - 1)]) / 2 for i in range(n)]
    if frm == "right" and to == "center":
        return [(vals[max(i - 1, 0)] + vals[i]) / 2 for i in range(n)]
    if frm == "center" and to == "outer":
        return [(vals[max(i - 1, 0)] + vals[min(i, n - 1)]) / 2 for i in range(n + 1)]
    if frm == "outer" and to == "center":
        return [(vals[i] + vals[i + 1]) / 2 for i in range(n - 1)]
    raise ValueError((frm, to))


def moved_to(arr, dims, target_pos):
    """metric array moved to the array's positions on its own axes; (dims, array, interpolated?)"""
    cur, cur_dims, interp = arr, list(dims), False
    for k, d in enumerate(list(cur_dims)):
        ax, frm = DIMPOS[d]
        to = target_pos[ax]
        if frm == to:
            continue
        interp = True
        cur = apply_along(cur, k, lambda v, frm=frm, to=to: interp_extend(v, frm, to))
        cur_dims[k] = DIM[(ax, to)]
    return tuple(cur_dims), cur, interp


def partitions_largest_first(req):
    """groups of partitions of the requested axis set into registered-key blocks, largest block first"""
    req = list(req)
    n = len(req)
    groups = []
    if n == 2:
        groups.append([[(req[0],), (req[1],)]])
    elif n == 3:
        groups.append([[tuple(x for x in req if x != z), (z,)] for z in req])
        groups.append([[(a,) for a in req]])
    return groups


def spec_metric(P, vals, registry, array_pos, req):
    """admissible answers: list of candidate lists of (dims, array, interpolated?); [] => KeyError expected"""
    def block_choices(block):
        names = registry.get(frozenset(block))
        if not names:
            return None
        at = [n for n in names if all(DIMPOS[d][1] == array_pos[DIMPOS[d][0]] for d in P[n][1])]
        if at:
            return [moved_to(vals[at[0]], P[at[0]][1], array_pos)]
        return [moved_to(vals[n], P[n][1], array_pos) for n in names]

    key = frozenset(req)
    if registry.get(key):
        return [[c] for c in block_choices(key)]
    for group in partitions_largest_first(req):
        res = []
        for part in group:
            ch = [block_choices(b) for b in part]
            if any(c is None for c in ch):
                continue
            for combo in itertools.product(*ch):
                res.append(list(combo))
        if res:
            return res
    return []


def product_da(cand):
    prod = None
    for dims, arr, _ in cand:
        d = xr.DataArray(arr, dims=dims)
        prod = d if prod is None else prod * d
    return prod


def case(W, cfg):
    if cfg["kind"] == "sel1":
        return case_sel1(W, cfg)
    return case_sel(W, cfg) if cfg["kind"] == "sel" else case_ops(W, cfg)


def case_sel1(W, cfg):
    """single axis with >= 3 positions, metrics registered at the positions `reg`: for an array at every position the
    metric is the one registered there, else one of the registered ones moved to the array's position.  A move between
    centre and another position is the stencil oracle's interpolation with nearest-value extension (exact).  For a move
    between two non-centre positions the statement fixes no weights: only what it does say is demanded - the metric lies
    on the array's dimension, and every cell lies within the range of the source metric (interpolation with nearest-value
    extension cannot leave it)."""
    import xgcm
    from specs.stencil import plen as plen5
    from sx.core import SBool
    import z3
    layout, reg, N = tuple(cfg["layout"]), cfg["reg"], cfg["N"]
    dimof = {q: "x" + q[0] for q in layout}
    ds = xr.Dataset(coords={d: np.arange(plen5(q, N)) * 1.0 for q, d in dimof.items()})
    vals = {}
    for q in reg:
        arr = W.data("m_" + q, (plen5(q, N),), gen=lambda r: r.randint(2, 24) / 4.0)
        if W.sym:
            for x in arr.ravel():
                W.assume(x.t > 0)
        ds["m_" + q] = ((dimof[q],), arr)
        vals[q] = arr
    with warnings.catch_warnings():
        warnings.simplefilter("ignore")
        grid = xgcm.Grid(ds, coords={"X": dict(dimof)}, periodic=False, metrics={("X",): ["m_" + q for q in reg]}, autoparse_metadata=False)
    for pos in layout:
        if plen5(pos, N) < 1:
            continue
        a = W.data("a", (plen5(pos, N),))
        arr = xr.DataArray(a, dims=[dimof[pos]])
        lab = "X@%s|reg=%s" % (pos, ",".join(reg))
        with warnings.catch_warnings(record=True) as w:
            warnings.simplefilter("always")
            try:
                got, err = grid.get_metric(arr, ("X",)), None
            except Exception as e:  # noqa
                got, err = None, "%s: %s" % (type(e).__name__, str(e)[:100])
        warned = any("interpolated" in str(x.message) for x in w)
        W.require("sel1-no-error:" + lab, err is None, "get_metric raised %s" % err)
        if err:
            continue
        W.require("sel1-on-the-array's-dimension:" + lab, tuple(got.dims) == (dimof[pos],), "metric dims %s, array dims %s" % (got.dims, arr.dims))
        if tuple(got.dims) != (dimof[pos],):
            continue
        g = list(got.data)
        if pos in reg:
            W.equal("sel1-registered-at-position:" + lab, g, list(vals[pos]))
            continue
        exact = [q for q in reg if "center" in (q, pos)]
        ok = False
        for q in exact:
            want = spec_1d(list(vals[q]), q, pos, N, "interp", "extend", 0.0)
            if len(want) == len(g) and W.holds(g, want):
                ok = True
                break
        if not ok:
            for q in reg:
                if q in exact:
                    continue
                src = list(vals[q])
                if W.sym:
                    conds = []
                    for cell in g:
                        ct = harness.lift(cell)
                        conds.append(z3.And(z3.Or([ct >= harness.lift(v) for v in src]), z3.Or([ct <= harness.lift(v) for v in src])))
                    ok = W.holds_claim(z3.And(conds))
                else:
                    ok = all(min(src) - 1e-9 <= float(cell) <= max(src) + 1e-9 for cell in g)
                if ok:
                    break
        W.require("sel1-admissible:" + lab, ok, "metric at %s for an array at %s is none of the registered metrics moved there: %s" % (reg, pos, str(g[0])[:120]))
        if ok:
            W.require("sel1-warns-when-interpolating:" + lab, warned, "interpolated silently")
        # derivative / metric-weighted interp from here to every other reachable position use the metric at the *result's*
        # position, i.e. what get_metric gives for an array there (itself checked when the loop reaches that position)
        for to in layout:
            if to == pos or "center" not in (pos, to) or plen5(to, N) < 1:
                continue
            probe = xr.DataArray(np.zeros(plen5(to, N)), dims=[dimof[to]])
            try:
                with warnings.catch_warnings():
                    warnings.simplefilter("ignore")
                    m_to = list(grid.get_metric(probe, ("X",)).data)
                    r = grid.derivative(arr, "X", to=to, boundary="extend")
                    r2 = grid.interp(arr, "X", to=to, boundary="extend", metric_weighted=("X",))
            except Exception as e:  # noqa
                W.fail("sel1-derivative-raises:" + lab, "to=%s: %s: %s" % (to, type(e).__name__, str(e)[:120]))
                continue
            d1 = spec_1d(list(a), pos, to, N, "diff", "extend", 0.0)
            W.require("sel1-derivative-dims:%s->%s" % (lab, to), tuple(r.dims) == (dimof[to],) and len(m_to) == len(d1), "%s" % (r.dims,))
            if tuple(r.dims) == (dimof[to],) and len(m_to) == len(d1):
                W.equal("sel1-derivative=diff/metric-at-result:%s->%s" % (lab, to), list(r.data), [x / m for x, m in zip(d1, m_to)], record=False)
                i1 = spec_1d([x * m for x, m in zip(a, g)], pos, to, N, "interp", "extend", 0.0)
                W.equal("sel1-metric_weighted-interp:%s->%s" % (lab, to), list(r2.data), [x / m for x, m in zip(i1, m_to)], record=False)
        # integrate uses that metric and sums over the array's dimension
        try:
            r = grid.integrate(arr, "X")
            W.require("sel1-integrate-dims:" + lab, tuple(r.dims) == (), "integrate over the only dimension left dims %s" % (r.dims,))
            if tuple(r.dims) == ():
                tot = 0.0
                for x, m in zip(a, g):
                    tot = tot + x * m
                W.equal("sel1-integrate=sum(data*metric):" + lab, [r.data[()]], [tot], record=False)
        except Exception as e:  # noqa
            W.fail("sel1-integrate-raises:" + lab, "%s: %s" % (type(e).__name__, str(e)[:120]))


def make_grid(ds, axes, metrics):
    import xgcm
    with warnings.catch_warnings():
        warnings.simplefilter("ignore")
        return xgcm.Grid(ds, coords={a: {p: DIM[(a, p)] for p in POSN[a]} for a in axes}, periodic=False,
                         metrics=metrics, autoparse_metadata=False)


def case_sel(W, cfg):
    axes, N, reg = cfg["axes"], cfg["N"], cfg["reg"]
    ds, P, vals = build(W, axes, N, names=set(reg))
    registry = {}
    for nm in reg:
        registry.setdefault(frozenset(P[nm][0]), []).append(nm)
    metrics = {}
    for nm in reg:
        metrics.setdefault(tuple(P[nm][0]), []).append(nm)
    grid = make_grid(ds, axes, metrics)
    requests = []
    for k in range(1, len(axes) + 1):
        for sub in itertools.combinations(axes, k):
            requests.append(sub)
            if k == 2:
                requests.append(sub[::-1])
    for pos in itertools.product(*[POSN[a] for a in axes]):
        array_pos = dict(zip(axes, pos))
        dims = tuple(DIM[(a, array_pos[a])] for a in axes)[::-1]
        arr = xr.DataArray(W.data("a", tuple(ds.sizes[d] for d in dims)), dims=dims)
        for req in requests:
            lab = "%s@%s" % ("".join(req), "".join(p[0] for p in pos))
            adm = spec_metric(P, vals, registry, array_pos, req)
            with warnings.catch_warnings(record=True) as w:
                warnings.simplefilter("always")
                try:
                    got, err = grid.get_metric(arr, req), None
                except KeyError:
                    got, err = None, "KeyError"
                except Exception as e:  # noqa
                    got, err = None, type(e).__name__ + ":" + str(e)[:80]
            warned = any("interpolated" in str(x.message) for x in w)
            if not adm:
                W.require("keyerror-iff-nothing-admissible:" + lab, err == "KeyError", "expected KeyError, got %s" % (err or "a value"))
                continue
            W.require("no-error:" + lab, err is None, "unexpected %s" % err)
            if err:
                continue
            W.require("broadcasts:" + lab, set(got.dims) <= set(dims), "metric dims %s array dims %s" % (got.dims, dims))
            ok, need_interp = False, None
            for cand in adm:
                prod = product_da(cand)
                if set(prod.dims) != set(got.dims):
                    continue
                g2 = got.transpose(*prod.dims)
                if g2.shape == prod.shape and W.holds(g2.data, prod.data):
                    ok, need_interp = True, any(c[2] for c in cand)
                    break
            W.require("admissible:" + lab, ok, "registry %s: get_metric(%s) at %s returned %s, which is none of the %d admissible metrics" % (
                {"".join(sorted(k)): v for k, v in registry.items()}, req, array_pos, str(got.data.ravel()[0])[:120], len(adm)))
            if ok and need_interp:
                W.require("warns-when-interpolating:" + lab, warned, "interpolated silently")
            W.record("metric:" + lab, list(got.transpose(*[d for d in dims if d in got.dims]).data.ravel()))


def case_ops(W, cfg):
    axes, N = cfg["axes"], cfg["N"]
    ds, P, vals = build(W, axes, N)
    metrics = {}
    for nm, (sub, dims) in P.items():
        metrics.setdefault(tuple(sub), []).append(nm)
    grid = make_grid(ds, axes, metrics)
    pos = list(itertools.product(*[POSN[a] for a in axes]))[cfg["pos"]]
    array_pos = dict(zip(axes, pos))
    dims = tuple(DIM[(a, array_pos[a])] for a in axes)[::-1]
    a = W.data("a", tuple(ds.sizes[d] for d in dims))
    da = xr.DataArray(a, dims=dims, name="a")

    def metric_at(sub, apos):
        nm = "m" + "".join(x.lower() for x in sub) + "_" + "".join(apos[x][0] for x in sub)
        return xr.DataArray(vals[nm], dims=P[nm][1])

    def total(xs):
        acc = 0.0
        for x in xs:
            acc = acc + x
        return acc

    for k in range(1, len(axes) + 1):
        for sub in itertools.combinations(axes, k):
            m = metric_at(sub, array_pos)
            sumdims = [DIM[(x, array_pos[x])] for x in sub]
            wd = (da * m).transpose(*dims)
            keep = [d for d in dims if d not in sumdims]
            # oracle: plain sum of data*metric over the axes' dims
            odt = object if W.sym else float  # oracle arrays never inherit an integer dtype of the data
            want = np.empty(tuple(ds.sizes[d] for d in keep), dtype=odt)
            md = (m * xr.ones_like(da) if False else m.broadcast_like(da).transpose(*dims)).data
            for idx in np.ndindex(*want.shape):
                sel = dict(zip(keep, idx))
                cells = [wd.isel(sel).data.ravel()[i] for i in range(wd.isel(sel).size)]
                want[idx] = total(cells)
            for order in itertools.permutations(sub):
                lab = "%s@%s" % ("".join(order), "".join(p[0] for p in pos))
                r = grid.integrate(da, list(order))
                W.require("integrate-dims:" + lab, tuple(r.dims) == tuple(keep), "%s want %s" % (r.dims, keep))
                W.equal("integrate=sum(data*metric):" + lab, r.data, want)
            # average
            lab = "%s@%s" % ("".join(sub), "".join(p[0] for p in pos))
            c = W.scalar("c")
            const = xr.DataArray(np.full(a.shape, c, dtype=a.dtype), dims=dims)
            r = grid.average(const, list(sub))
            W.equal("average-of-constant:" + lab, r.data, np.full(r.shape, c, dtype=odt))
            if k == 1 or N == 2:
                r = grid.average(da, list(sub))
                wantavg = np.empty(want.shape, dtype=odt)
                for idx in np.ndindex(*want.shape):
                    sel = dict(zip(keep, idx))
                    msel = xr.DataArray(md, dims=dims).isel(sel).data.ravel()
                    wantavg[idx] = want[idx] / total(list(msel))
                W.equal("average=sum(data*metric)/sum(metric):" + lab, r.data, wantavg)
    # derivative and metric_weighted along each axis
    fv = W.scalar("fv")
    for ax in axes:
        frm = array_pos[ax]
        to = [p for p in POSN[ax] if p != frm][0]
        res_pos = dict(array_pos)
        res_pos[ax] = to
        i = dims.index(DIM[(ax, frm)])
        rdims = tuple(DIM[(ax, to)] if d == DIM[(ax, frm)] else d for d in dims)
        lab = "%s:%s->%s@%s" % (ax, frm, to, "".join(p[0] for p in pos))
        mres = metric_at((ax,), res_pos)
        d1 = apply_along(a, i, lambda v: spec_1d(v, frm, to, N, "diff", "fill", fv))
        want = (xr.DataArray(d1, dims=rdims) / mres).transpose(*rdims)
        r = grid.derivative(da, ax, to=to, boundary="fill", fill_value=fv)
        W.require("derivative-dims:" + lab, tuple(r.dims) == rdims, str(r.dims))
        W.equal("derivative=diff/metric-at-result:" + lab, r.transpose(*rdims).data, want.data)
        for wsub in ([(ax,)] + ([tuple(axes[:2])] if len(axes) >= 2 else [])):
            if ax not in wsub and len(wsub) > 1 and False:
                continue
            m_in = metric_at(wsub, array_pos)
            m_out = metric_at(wsub, res_pos)
            am = (da * m_in).transpose(*dims).data
            for op in ("diff", "interp"):
                o1 = apply_along(am, i, lambda v: spec_1d(v, frm, to, N, op, "fill", fv))
                want = (xr.DataArray(o1, dims=rdims) / m_out).transpose(*rdims)
                r = getattr(grid, op)(da, ax, to=to, boundary="fill", fill_value=fv, metric_weighted=list(wsub))
                W.equal("metric_weighted-%s=%s(data*m)/m':%s:%s" % (op, op, "".join(wsub), lab), r.transpose(*rdims).data, want.data)
            c1 = apply_along(am, i, lambda v: spec_cumsum(v, frm, to, N, "fill", fv))
            want = (xr.DataArray(c1, dims=rdims) / m_out).transpose(*rdims)
            r = grid.cumsum(da, ax, to=to, boundary="fill", fill_value=fv, metric_weighted=list(wsub))
            W.equal("metric_weighted-cumsum:%s:%s" % ("".join(wsub), lab), r.transpose(*rdims).data, want.data)
            # other documented spellings of the same request: a bare axis name, a tuple, and a per-axis mapping in a call
            # over two axes (weighted along the first, unweighted - None - along the second)
            spellings = [("tuple", tuple(wsub))] + ([("str", wsub[0])] if len(wsub) == 1 else [])
            o1 = apply_along(am, i, lambda v: spec_1d(v, frm, to, N, "min", "fill", fv))
            want = (xr.DataArray(o1, dims=rdims) / m_out).transpose(*rdims)
            for sp, mw in spellings:
                r = grid.min(da, ax, to=to, boundary="fill", fill_value=fv, metric_weighted=mw)
                W.equal("metric_weighted-spelling-%s:%s:%s" % (sp, "".join(wsub), lab), r.transpose(*rdims).data, want.data, record=False)
            others = [x for x in axes if x != ax]
            if others:
                ax2 = others[0]
                frm2 = array_pos[ax2]
                to2 = [p_ for p_ in POSN[ax2] if p_ != frm2][0]
                o1 = apply_along(am, i, lambda v: spec_1d(v, frm, to, N, "interp", "fill", fv))
                step1 = (xr.DataArray(o1, dims=rdims) / m_out).transpose(*rdims)
                i2 = rdims.index(DIM[(ax2, frm2)])
                o2 = apply_along(step1.data, i2, lambda v: spec_1d(v, frm2, to2, N, "interp", "fill", fv))
                rdims2 = tuple(DIM[(ax2, to2)] if d == DIM[(ax2, frm2)] else d for d in rdims)
                mwmap = {x: None for x in axes}
                mwmap[ax] = tuple(wsub)
                tomap = {x: None for x in axes}
                tomap[ax], tomap[ax2] = to, to2
                r = grid.interp(da, [ax, ax2], to=tomap, boundary="fill", fill_value=fv, metric_weighted=mwmap)
                W.require("metric_weighted-mapping-dims:%s:%s" % ("".join(wsub), lab), tuple(r.dims) == rdims2, "%s want %s" % (r.dims, rdims2))
                if tuple(r.dims) == rdims2:
                    W.equal("metric_weighted-mapping-two-axes:%s:%s" % ("".join(wsub), lab), r.data, o2, record=False)


def finding_key(cfg, v):
    lab = v["label"]
    if lab.startswith("admissible:") and "".join(sorted(lab.split(":")[1].split("@")[0])) in ("XY", "XZ", "YZ", "XYZ"):
        return "product-branch-last-combination-wins"
    return lab


if __name__ == "__main__":
    sys.exit(harness.main(sys.modules[__name__]))
