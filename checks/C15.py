"""C15 Grid-ufunc signatures: parse/print are inverse; equivalence is renaming."""
import ast
import inspect
import itertools
import random
import re
import sys
import textwrap
import time
from typing import Annotated, Tuple

import numpy as np
import z3

from lib import harness
import re2smt
from re2smt import ANY1, WORD

ID = "C15"
FUNCTIONS = ["xgcm.grid_ufunc:_parse_signature_from_string", "xgcm.grid_ufunc:_parse_signature_from_type_hints",
             "xgcm.grid_ufunc:_GridUFuncSignature.__str__", "xgcm.grid_ufunc:_GridUFuncSignature.equivalent",
             "xgcm.grid_ufunc:_GridUFuncSignature.from_string", "xgcm.grid:_select_grid_ufunc"]
BOUNDS = {
    "quick": {"(a) language, strings of every length": "z3 regular-expression queries on the translation of the real _SIGNATURE: well-formed grammar included; each listed ill-formed class disjoint (missing side, nested / juxtaposed / unbalanced parentheses, unknown position word, empty name, empty position, doubled commas, stray characters incl. control characters and misplaced '-' '>')",
              "(c) explored, not solver-decided": "round trip, type-hint form, equivalence <=> renaming, predefined operations for any axis name: 11 input shapes x 5 output shapes x position rotations x 9 name triples from the adversarial pool; every single-character deletion/insertion/substitution of 40 template strings classified and run"},
    "thorough": {"(c)": "+ 3-input shapes, 18 name triples, corruptions of 200 template strings"},
}
OUTSIDE = ["non-ASCII word characters (\\w is modelled over ASCII)", "signature structures beyond the templates (clause (c))",
           "strings accepted beyond the strict grammar on which the statement is silent: empty arguments '()' and a trailing comma inside an argument"]
ASSUMPTIONS = ["acceptance of a string signature is decided by re.match/fullmatch(_SIGNATURE, signature.replace(' ', '')) -- confirmed on the AST of the current source each run"]
POSITIONS = ["center", "left", "right", "inner", "outer"]
NAME_TRIPLES = [("X", "Y", "Z"), ("t", "e", "r"), ("c", "n", "i"), ("leftover", "over", "left_"), ("a", "aa", "aaa"), ("Xc", "X", "c"),
                ("center1", "outerspace", "in"), ("_", "__a", "__b"), ("lon", "longitude", "LON"),
                ("l", "o", "u"), ("right0", "0right", "rightright"), ("x", "X", "xX"), ("inn", "er", "inner_"), ("T1", "T11", "T111"),
                ("depth", "dept", "h"), ("g", "h", "f"), ("cen", "ter", "centre"), ("A", "B", "C")]


# ------------------------------------------------------------------ (a) language
def _acceptance_call(func):
    """(how, pattern text, flags) of the regular-expression test that guards a parser, read from the AST of the
    current source: re.<how>(NAME, arg) or NAME.<how>(arg), NAME a module-level str or compiled pattern"""
    import xgcm.grid_ufunc as gu
    tree = ast.parse(textwrap.dedent(inspect.getsource(func)))
    found = []
    for node in ast.walk(tree):
        if not (isinstance(node, ast.Call) and isinstance(node.func, ast.Attribute) and node.func.attr in ("match", "fullmatch", "search")
                and isinstance(node.func.value, ast.Name)):
            continue
        base = node.func.value.id
        if base == "re":
            if not (node.args and isinstance(node.args[0], ast.Name)):
                continue
            obj = getattr(gu, node.args[0].id, None)
            flags = 0
            if len(node.args) > 2 or node.keywords:
                raise harness.HarnessError("regular-expression flags passed at the call site are not modelled")
        else:
            obj = getattr(gu, base, None)
            flags = 0
        if isinstance(obj, re.Pattern):
            obj, flags = obj.pattern, obj.flags
        if isinstance(obj, str):
            found.append((node.func.attr, obj, flags))
    return found


def acceptance_regex():
    """z3 regex of the strings (without spaces) that the real parser accepts, derived from the current source"""
    import xgcm.grid_ufunc as gu
    src = textwrap.dedent(inspect.getsource(gu._parse_signature_from_string))
    strip_ok = any(isinstance(node, ast.Call) and isinstance(node.func, ast.Attribute) and node.func.attr == "replace" and len(node.args) == 2
                   and all(isinstance(a, ast.Constant) for a in node.args) and node.args[0].value == " " and node.args[1].value == ""
                   for node in ast.walk(ast.parse(src)))
    found = [f for f in _acceptance_call(gu._parse_signature_from_string) if f[1] == gu._SIGNATURE]
    if len(found) != 1 or not strip_ok:
        raise harness.HarnessError("acceptance in _parse_signature_from_string is no longer one regular-expression test of _SIGNATURE on signature.replace(' ', '')")
    how, pattern, flags = found[0]
    try:
        return re2smt.translate(pattern, how=how, flags=flags), how, pattern
    except re2smt.Unsupported as e:
        raise harness.HarnessError("regular expression outside the translator: %s" % e)


def lit(s):
    return z3.Re(s)


def anyof(chars):
    return z3.Union(*[z3.Re(c) for c in chars]) if len(chars) > 1 else z3.Re(chars)


SIGMA = z3.Star(ANY1)


def contains(r):
    return z3.Concat(SIGMA, r, SIGMA)


def grammar():
    pos = z3.Union(*[lit(p) for p in POSITIONS])
    name = z3.Plus(WORD)
    pair = z3.Concat(name, lit(":"), pos)
    arg = z3.Concat(lit("("), pair, z3.Star(z3.Concat(lit(","), pair)), lit(")"))
    side = z3.Concat(arg, z3.Star(z3.Concat(lit(","), arg)))
    return z3.Concat(side, lit("->"), side)


def rejected_classes():
    pos = z3.Union(*[lit(p) for p in POSITIONS])
    word = z3.Plus(WORD)
    notword1 = z3.Diff(ANY1, WORD)
    allowed = z3.Union(WORD, anyof(":,()->"))
    noparen = z3.Star(z3.Diff(ANY1, anyof("()")))
    flat_balanced = z3.Concat(z3.Star(z3.Concat(noparen, lit("("), noparen, lit(")"))), noparen)
    cls = {
        "missing-side:no-arrow": z3.Complement(contains(lit("->"))),
        "missing-side:nothing-before-arrow": z3.Concat(lit("->"), SIGMA),
        "missing-side:nothing-after-arrow": z3.Concat(SIGMA, lit("->")),
        "nested-parentheses": z3.Union(contains(lit("((")), contains(lit("))"))),
        "juxtaposed-parentheses": contains(lit(")(")),
        "unbalanced-or-nested-parentheses": z3.Complement(flat_balanced),
        "unknown-position-word": z3.Concat(SIGMA, lit(":"), z3.Diff(word, pos), z3.Union(z3.Concat(notword1, SIGMA), lit(""))),
        "empty-name": z3.Union(contains(lit("(:")), contains(lit(",:")), z3.Concat(lit(":"), SIGMA)),
        "empty-position": z3.Union(contains(lit(":,")), contains(lit(":)")), z3.Concat(SIGMA, lit(":")), contains(lit(":-"))),
        "doubled-commas": contains(lit(",,")),
        "stray-character": contains(z3.Diff(ANY1, z3.Union(allowed, lit(" ")))),
        "stray-minus-or-greater": z3.Union(contains(z3.Concat(lit("-"), z3.Diff(ANY1, lit(">")))), z3.Concat(SIGMA, lit("-")),
                                           contains(z3.Concat(z3.Diff(ANY1, lit("-")), lit(">"))), z3.Concat(lit(">"), SIGMA)),
        "two-arrows": z3.Concat(SIGMA, lit("->"), SIGMA, lit("->"), SIGMA),
        "pair-without-colon": z3.Union(contains(z3.Concat(anyof("(,"), word, anyof(",)")))),
    }
    return cls


def real_accepts(s):
    from xgcm.grid_ufunc import _GridUFuncSignature
    try:
        _GridUFuncSignature.from_string(s)
        return True
    except ValueError:
        return False


def prechecks(tier):
    t0 = time.time()
    info = dict(oblig=0, discharged=0, solver_s=0.0, solver_calls=0, errors=[], violations=[], samples=[], coverage={})
    try:
        R, how, pattern = acceptance_regex()
    except harness.HarnessError as e:
        # no language verdict (exit 2 unless the explored clauses find a replayable violation)
        info["errors"].append("HarnessError: %s" % e)
        return info
    s = z3.String("s")

    def query(label, formula, expect_real_accept=None):
        """formula over s must be unsat; on sat the witness is replayed on the real parser"""
        info["oblig"] += 1
        sv = z3.Solver()
        sv.set("timeout", 60000)
        sv.add(formula)
        t1 = time.time()
        r = sv.check()
        info["solver_s"] += time.time() - t1
        info["solver_calls"] += 1
        if r == z3.unsat:
            info["discharged"] += 1
            return None
        if r == z3.unknown:
            info["errors"].append("solver unknown on language query " + label)
            return None
        w = sv.model().eval(s, model_completion=True).as_string()
        try:
            w = w.encode("latin-1", "backslashreplace").decode("unicode_escape") if "\\u{" in w else w
        except Exception:
            pass
        return w

    # translation validation of the regex translator: z3 members / non-members vs the real re module
    nval = 0
    for L in range(0, 40, 3):
        for positive in (True, False):
            sv = z3.Solver()
            sv.set("timeout", 20000)
            sv.add(z3.InRe(s, R) if positive else z3.Not(z3.InRe(s, R)), z3.Length(s) >= L, z3.Length(s) <= L + 14)
            if not positive:
                sv.add(z3.InRe(s, z3.Star(z3.Union(WORD, anyof(":,()->\n")))))
            if sv.check() == z3.sat:
                w = z3_string(sv.model().eval(s, model_completion=True))
                real = bool(getattr(re.compile(pattern), how)(w))
                nval += 1
                if real != positive:
                    info["errors"].append("regex translation disagrees with re.%s on %r (z3 says %s)" % (how, w, positive))
    rng = random.Random(7)
    alphabet = list("XYab_1:,()->") + ["center", "left", "outer", "\n", " ", "."]
    for _ in range(300):
        w = "".join(rng.choice(alphabet) for _ in range(rng.randint(0, 14)))
        nval += 1
        if bool(getattr(re.compile(pattern), how)(w)) != re2smt.member(R, w):
            info["errors"].append("regex translation disagrees with re.%s on %r" % (how, w))
    # (a1) every well-formed string is accepted
    w = query("wellformed-subset-of-accepted", z3.And(z3.InRe(s, grammar()), z3.Not(z3.InRe(s, R))))
    if w is not None:
        if not real_accepts(w):
            info["violations"].append(dict(label="accepts:wellformed", cfg={"kind": "string", "s": w, "expect": "accept"},
                                           detail_sym="z3: well-formed %r not in L(_SIGNATURE)" % w, detail_float="real parser rejects %r" % w, env={}))
        else:
            info["errors"].append("non-reproducing witness %r for wellformed inclusion" % w)
    # (a2) each rejected class is disjoint from the accepted language
    for cname, rc in rejected_classes().items():
        w = query("rejected:" + cname, z3.And(z3.InRe(s, rc), z3.InRe(s, R)))
        if w is not None:
            if real_accepts(w):
                info["violations"].append(dict(label="rejects:" + cname, cfg={"kind": "string", "s": w, "expect": "reject", "cls": cname},
                                               detail_sym="z3: %r is in class '%s' and in L(_SIGNATURE)" % (w, cname),
                                               detail_float="real parser accepts %r" % w, env={}))
            else:
                info["errors"].append("non-reproducing witness %r for class %s" % (w, cname))
    # beyond the grammar (reported, not claimed): what else is accepted
    extra = query("coverage:accepted-beyond-grammar", z3.And(z3.InRe(s, R), z3.Not(z3.InRe(s, grammar())), z3.Length(s) <= 30))
    info["oblig"] -= 1
    info["coverage"]["accepted_beyond_strict_grammar_example"] = extra
    info["coverage"]["regex_translation_validations"] = nval
    info["coverage"]["acceptance_function"] = "re.%s(_SIGNATURE, signature.replace(' ', ''))" % how
    info["coverage"]["language_queries_wall_s"] = round(time.time() - t0, 2)
    info["samples"].append({"language query": "InRe(s, class 'doubled-commas') and InRe(s, translate(_SIGNATURE)) -> unsat", "pattern": pattern[:120]})
    return info


def z3_string(v):
    w = v.as_string()
    out, i = [], 0
    while i < len(w):
        if w.startswith("\\u{", i):
            j = w.index("}", i)
            out.append(chr(int(w[i + 3:j], 16)))
            i = j + 1
        else:
            out.append(w[i])
            i += 1
    return "".join(out)


# ------------------------------------------------------------- (c) explored part
IN_SHAPES = [[1], [2], [1, 1], [1, 2], [2, 1], [2, 2]]
IN_SHAPES_T = [[1, 1, 1], [1, 2, 1], [2, 2, 2], [2, 1, 2], [1, 1, 2]]
OUT_SHAPES = [[1], [2], [1, 1], [1, 2], [2, 2]]


def structures(tier):
    """(names index lists, positions) templates: list of (ins, outs) with pairs (name_index, position)"""
    shapes_in = IN_SHAPES + (IN_SHAPES_T if tier == "thorough" else IN_SHAPES_T[:1])
    out = []
    for si, so in itertools.product(shapes_in, OUT_SHAPES):
        nslots = sum(si) + sum(so)
        for rot in range(5):
            for pat in range(3):
                slots = []
                for k in range(nslots):
                    name = [k % 3, (k // 2) % 3, (k * k + 1) % 3][pat]
                    slots.append((name, POSITIONS[(k * (pat + 1) + rot) % 5]))
                # a dummy name must not occur twice inside one argument
                it = iter(slots)
                ins = [[next(it) for _ in range(n)] for n in si]
                outs = [[next(it) for _ in range(n)] for n in so]
                ok = all(len({n for n, _ in a}) == len(a) for a in ins + outs)
                # output names must occur among the inputs
                innames = {n for a in ins for n, _ in a}
                outs = [[(n if n in innames else sorted(innames)[0], p) for n, p in a] for a in outs]
                ok = ok and all(len({n for n, _ in a}) == len(a) for a in outs)
                if ok:
                    out.append((ins, outs))
    return out


def render(ins, outs, names, spaces=None):
    f = lambda args: ",".join("(" + ",".join("%s:%s" % (names[n], p) for n, p in a) + ")" for a in args)  # noqa
    s = f(ins) + "->" + f(outs)
    if spaces is not None:
        rng = random.Random(spaces)
        chars = []
        for ch in s:
            chars.append(ch)
            if ch in ",:()>" and rng.random() < 0.4:
                chars.append(" ")
        s = "".join(chars)
    return s


def cases(tier):
    out = []
    triples = NAME_TRIPLES[:9] if tier == "quick" else NAME_TRIPLES
    st = structures(tier)
    for ti in range(len(triples)):
        for chunk in range(0, len(st), 25):
            out.append(dict(kind="templates", triple=ti, lo=chunk, hi=chunk + 25, tier=tier))
    for ti in range(len(triples)):
        out.append(dict(kind="select", triple=ti))
    nt = 40 if tier == "quick" else 200
    for k in range(0, nt, 5):
        out.append(dict(kind="corrupt", lo=k, hi=k + 5, tier=tier))
    return out


def is_renaming(a_ins, a_outs, na, b_ins, b_outs, nb):
    """oracle: same shape, same positions, and the dummy names related one-to-one"""
    if [len(x) for x in a_ins] != [len(x) for x in b_ins] or [len(x) for x in a_outs] != [len(x) for x in b_outs]:
        return False
    fwd, bwd = {}, {}
    for xa, xb in zip(a_ins + a_outs, b_ins + b_outs):
        for (n1, p1), (n2, p2) in zip(xa, xb):
            if p1 != p2:
                return False
            if fwd.setdefault(na[n1], nb[n2]) != nb[n2] or bwd.setdefault(nb[n2], na[n1]) != na[n1]:
                return False
    return True


def case(W, cfg):
    if W.sym:
        # nothing symbolic in clause (c): explored on the real functions, counted separately from the solver-decided part
        pass
    return {"templates": case_templates, "select": case_select, "corrupt": case_corrupt, "string": case_string}[cfg["kind"]](W, cfg)


def case_string(W, cfg):
    acc = real_accepts(cfg["s"])
    if cfg["expect"] == "reject":
        W.require("rejects:" + cfg.get("cls", ""), not acc, "real parser accepts %r" % cfg["s"])
    else:
        W.require("accepts:wellformed", acc, "real parser rejects %r" % cfg["s"])


def hints_signature(ins, outs, names):
    from xgcm.grid_ufunc import _GridUFuncSignature
    ann = {}
    for i, a in enumerate(ins):
        ann["a%d" % i] = Annotated[np.ndarray, ",".join("%s:%s" % (names[n], p) for n, p in a)]
    outs_ann = [Annotated[np.ndarray, ",".join("%s:%s" % (names[n], p) for n, p in a)] for a in outs]
    ann["return"] = outs_ann[0] if len(outs_ann) == 1 else Tuple[tuple(outs_ann)]
    return _GridUFuncSignature.from_type_hints(dict(ann))


def hinted_function_signatures(ins, outs, names):
    """the same hints on a real function, wrapped twice by as_grid_ufunc (the second time with other options): both
    wrappings denote the signature, and the function keeps its annotations"""
    from xgcm.grid_ufunc import as_grid_ufunc
    ann = {}
    for i, a in enumerate(ins):
        ann["a%d" % i] = Annotated[np.ndarray, ",".join("%s:%s" % (names[n], p) for n, p in a)]
    outs_ann = [Annotated[np.ndarray, ",".join("%s:%s" % (names[n], p) for n, p in a)] for a in outs]
    ann["return"] = outs_ann[0] if len(outs_ann) == 1 else Tuple[tuple(outs_ann)]
    src = "def f(%s):\n    return None\n" % ", ".join("a%d" % i for i in range(len(ins)))
    ns = {}
    exec(src, ns)
    f = ns["f"]
    f.__annotations__ = dict(ann)
    before = dict(f.__annotations__)
    first = str(as_grid_ufunc()(f).signature)
    second = str(as_grid_ufunc(boundary="extend")(f).signature)
    return first, second, dict(f.__annotations__) == before


def case_templates(W, cfg):
    from xgcm.grid_ufunc import _GridUFuncSignature
    triples = NAME_TRIPLES
    names = triples[cfg["triple"]]
    st = structures(cfg["tier"])[cfg["lo"]:cfg["hi"]]
    other = triples[(cfg["triple"] + 1) % len(triples)]
    for k, (ins, outs) in enumerate(st):
        s = render(ins, outs, names)
        lab = "names=%s" % (names,)
        try:
            sig = _GridUFuncSignature.from_string(s)
        except Exception as e:  # noqa
            W.require("accepted", False, "%r refused: %s" % (s, e))
            continue
        W.require("accepted", True)
        want_in_n = [tuple(names[n] for n, _ in a) for a in ins]
        want_in_p = [tuple(p for _, p in a) for a in ins]
        want_out_n = [tuple(names[n] for n, _ in a) for a in outs]
        want_out_p = [tuple(p for _, p in a) for a in outs]
        got = ([tuple(x) for x in sig.in_ax_names], [tuple(x) for x in sig.in_ax_positions], [tuple(x) for x in sig.out_ax_names], [tuple(x) for x in sig.out_ax_positions])
        W.require("parsed-structure", got == (want_in_n, want_in_p, want_out_n, want_out_p), "%r parsed as %s" % (s, got))
        W.require("prints-back", str(sig) == s, "%r prints as %r" % (s, str(sig)))
        sp = render(ins, outs, names, spaces=k + 1)
        try:
            sig2 = _GridUFuncSignature.from_string(sp)
            W.require("spaces-ignored", str(sig2) == s, "%r prints as %r" % (sp, str(sig2)))
        except Exception as e:  # noqa
            W.require("spaces-ignored", False, "%r refused: %s" % (sp, e))
        try:
            re_sig = _GridUFuncSignature.from_string(str(sig))
            W.require("reparses-to-itself", str(re_sig) == str(sig) and re_sig.in_ax_names == sig.in_ax_names and re_sig.out_ax_positions == sig.out_ax_positions, "%r" % s)
        except Exception as e:  # noqa
            W.require("reparses-to-itself", False, "%r -> %r refused: %s" % (s, str(sig), e))
        try:
            hs = hints_signature(ins, outs, names)
            W.require("type-hints=string", str(hs) == s, "hints give %r, string %r" % (str(hs), s))
        except Exception as e:  # noqa
            W.require("type-hints=string", False, "%r as type hints refused: %s: %s" % (s, type(e).__name__, e))
        if outs and all(len(a) > 0 for a in outs):
            try:
                h1, h2, kept = hinted_function_signatures(ins, outs, names)
                W.require("type-hints=string", h1 == s and h2 == s, "function wrapped twice: hints give %r then %r, string %r" % (h1, h2, s))
                W.require("type-hints-function-keeps-its-annotations", kept, "%r: __annotations__ of the wrapped function changed" % s)
            except Exception as e:  # noqa
                W.require("type-hints=string", False, "%r as an annotated function refused: %s: %s" % (s, type(e).__name__, e))
        # equivalence <=> consistent renaming
        variants = []
        variants.append(("renamed", ins, outs, other))
        variants.append(("renamed-permuted", ins, outs, (other[2], other[0], other[1])))
        variants.append(("same", ins, outs, names))
        variants.append(("merged-names", ins, outs, (other[0], other[0], other[2])))
        variants.append(("split-name", [[(n if (i + j) % 2 else (n + 1) % 3, p) for j, (n, p) in enumerate(a)] for i, a in enumerate(ins)], outs, other))
        chg = [list(a) for a in ins]
        chg[0][0] = (chg[0][0][0], POSITIONS[(POSITIONS.index(chg[0][0][1]) + 1) % 5])
        variants.append(("changed-position", chg, outs, other))
        variants.append(("swapped-within", [a[::-1] for a in ins], outs, other))
        # same flat sequence of name:position pairs, different structure: the arrow or a parenthesis moved
        if len(ins) >= 2:
            variants.append(("arrow-moved-left", ins[:-1], [ins[-1]] + list(outs), other))
            variants.append(("two-inputs-merged", [list(ins[0]) + list(ins[1])] + list(ins[2:]), outs, other))
            variants.append(("input-dropped", ins[1:], outs, other))
        if len(outs) >= 2:
            variants.append(("arrow-moved-right", list(ins) + [outs[0]], outs[1:], other))
            variants.append(("two-outputs-merged", ins, [list(outs[0]) + list(outs[1])] + list(outs[2:]), other))
        if len(ins[0]) >= 2:
            variants.append(("input-split", [ins[0][:1], ins[0][1:]] + list(ins[1:]), outs, other))
        if outs and len(outs[-1]) >= 2:
            variants.append(("output-split", ins, list(outs[:-1]) + [outs[-1][:1], outs[-1][1:]], other))
        variants.append(("input-duplicated", list(ins) + [ins[-1]], outs, other))
        for vname, vins, vouts, vnames in variants:
            if not all(len({vnames[n] for n, _ in a}) == len(a) for a in vins + vouts):
                continue
            try:
                vs = _GridUFuncSignature.from_string(render(vins, vouts, vnames))
            except Exception:
                continue
            want = is_renaming(ins, outs, names, vins, vouts, vnames)
            for a_, b_, d in ((sig, vs, "->"), (vs, sig, "<-")):
                got_eq = bool(a_.equivalent(b_))
                W.require("equivalent-iff-renaming:" + vname, got_eq == want, "%r %s %r: equivalent=%s, consistent renaming=%s" % (s, d, str(vs), got_eq, want))


def case_select(W, cfg):
    """the predefined operations are found for an axis of any name"""
    from xgcm import gridops
    from xgcm.grid import _select_grid_ufunc
    from xgcm.grid_ufunc import _GridUFuncSignature
    names = NAME_TRIPLES[cfg["triple"]]
    shifts = [("center", "left"), ("left", "center"), ("center", "right"), ("right", "center"), ("center", "outer"), ("outer", "center"), ("center", "inner"), ("inner", "center")]
    for nm in names:
        for op in ("diff", "interp", "min", "max", "cumsum"):
            for p, q in shifts:
                try:
                    sig = _GridUFuncSignature.from_string("(%s:%s)->(%s:%s)" % (nm, p, nm, q))
                    uf, _ = _select_grid_ufunc(op, sig, module=gridops)
                    W.require("predefined-op-found", uf is getattr(gridops, "%s_%s_to_%s" % (op, p, q)), "axis %r %s %s->%s selected %r" % (nm, op, p, q, uf))
                except Exception as e:  # noqa
                    W.require("predefined-op-found", False, "axis %r %s %s->%s: %s: %s" % (nm, op, p, q, type(e).__name__, str(e)[:120]))
        # a shift that does not exist is not found
        try:
            sig = _GridUFuncSignature.from_string("(%s:left)->(%s:right)" % (nm, nm))
            _select_grid_ufunc("diff", sig, module=gridops)
            W.require("undefined-shift-not-found", False, "left->right found for axis %r" % nm)
        except NotImplementedError:
            W.require("undefined-shift-not-found", True)


def classify(s):
    """'wellformed' | listed ill-formed class | 'silent' for a string without spaces (plain Python re; oracle side)"""
    pair = r"\w+:(?:center|left|right|inner|outer)"
    arg = r"\(%s(?:,%s)*\)" % (pair, pair)
    side = r"%s(?:,%s)*" % (arg, arg)
    if re.fullmatch(r"%s->%s" % (side, side), s, flags=re.ASCII):
        return "wellformed"
    checks = [
        ("missing-side", lambda: "->" not in s or s.startswith("->") or s.endswith("->")),
        ("nested-parentheses", lambda: "((" in s or "))" in s),
        ("juxtaposed-parentheses", lambda: ")(" in s),
        ("unbalanced-parentheses", lambda: not balanced(s)),
        ("doubled-commas", lambda: ",," in s),
        ("empty-name", lambda: "(:" in s or ",:" in s or s.startswith(":")),
        ("empty-position", lambda: ":," in s or ":)" in s or s.endswith(":") or ":-" in s),
        ("stray-character", lambda: re.search(r"[^\w:,()\->]", s, flags=re.ASCII) is not None or re.search(r"-(?!>)|(?<!-)>", s) is not None),
        ("unknown-position-word", lambda: any(w not in POSITIONS for w in re.findall(r":(\w+)", s, flags=re.ASCII))),
    ]
    for name, f in checks:
        if f():
            return name
    return "silent"


def balanced(s):
    d = 0
    for ch in s:
        if ch == "(":
            d += 1
        elif ch == ")":
            d -= 1
        if d < 0 or d > 1:
            return False
    return d == 0


def case_corrupt(W, cfg):
    """every single-character deletion / insertion / substitution of template strings"""
    st = structures(cfg["tier"])
    rng = random.Random(11)
    picks = [st[(i * 37) % len(st)] for i in range(cfg["lo"], cfg["hi"])]
    alphabet = list("X:,()->c_9") + ["\n", "\t", ".", "[", "é"[0:0] or "#"]
    counts = {}
    for i, (ins, outs) in enumerate(picks):
        names = NAME_TRIPLES[(cfg["lo"] + i) % len(NAME_TRIPLES)]
        s = render(ins, outs, names)
        muts = set()
        for k in range(len(s)):
            muts.add(s[:k] + s[k + 1:])
            for ch in alphabet:
                muts.add(s[:k] + ch + s[k + 1:])
                muts.add(s[:k] + ch + s[k:])
        for ch in alphabet:
            muts.add(s + ch)
        muts.discard(s)
        for m in sorted(muts):
            c = classify(m.replace(" ", ""))
            counts[c] = counts.get(c, 0) + 1
            acc = real_accepts(m)
            if c == "wellformed":
                W.require("corruption-still-wellformed-accepted", acc, "%r (from %r) refused" % (m, s))
            elif c != "silent":
                W.require("corruption-rejected:" + c, not acc, "%r (from %r, class %s) accepted" % (m, s, c))
    W.record("corruption-classes", [str(sorted(counts.items()))])


def finding_key(cfg, v):
    lab = v["label"]
    if lab.startswith("rejects:") or lab.startswith("corruption-rejected:"):
        return "trailing-newline-accepted" if "\n" in str(cfg.get("s", "")) or "\\n" in v.get("detail_float", "") else lab
    return lab


if __name__ == "__main__":
    sys.exit(harness.main(sys.modules[__name__]))
