"""C17 Only reciprocal face-connection tables are accepted."""
import itertools
import sys
import warnings

import numpy as np
import xarray as xr
import z3

from lib import harness
from sx.core import SBool, SInt
from specs.topology import OTHER, make_two_face_table
from checks.C05 import KINDS, chain_table

ID = "C17"
FUNCTIONS = ["xgcm.grid:Grid.__init__", "xgcm.grid:Grid._assign_face_connections"]
BOUNDS = {
    "quick": {"2 faces x 1 axis": "all four slots arbitrary: presence Bool, face Int in 0..2 (2 = no such face), axis in {X, Y(not linked), Q(no such axis)}, reverse Bool -- a superset of the 625 tables",
              "2 faces x 2 axes": "every single slot arbitrary (presence, face 0..2, axis X/Y/Q, reverse) around each of 14 consistent base tables; every pair of the 8 slots arbitrary around 4 of them (thorough: all 14)",
              "other": "two face dimensions; face dimension absent from the dataset"},
    "thorough": {"3 faces x 2 axes": "every pair of the 12 slots arbitrary around 24 consistent chain/ring tables; 4-6 faces with self-links: one arbitrary slot around seeded consistent tables"},
}
OUTSIDE = ["tables whose keys are not ints / axis names of other types", "tables with a key that is not a grid axis", "more than 6 faces"]
ASSUMPTIONS = ["link tuples are (int, axis name, bool) or None"]
AXN = ["X", "Y", "Q"]
MAX_PATHS = 60000


def t2j(table):
    return {str(f): {a: [list(l) if l else None for l in p] for a, p in d.items()} for f, d in table.items()}


def j2t(j):
    return {int(f): {a: [tuple(l) if l else None for l in p] for a, p in d.items()} for f, d in j.items()}


def base_tables_2x2():
    out = [make_two_face_table(*k) for k in KINDS]
    # richer consistent tables
    out.append({0: {"X": ((1, "X", False), (1, "X", False)), "Y": ((0, "Y", False), (0, "Y", False))},
                1: {"X": ((0, "X", False), (0, "X", False)), "Y": ((1, "Y", False), (1, "Y", False))}})
    out.append({0: {"X": (None, (1, "Y", False)), "Y": ((1, "X", False), None)}, 1: {"X": (None, (0, "Y", False)), "Y": ((0, "X", False), None)}})
    out.append({0: {"X": ((0, "X", True), None), "Y": (None, (1, "Y", True))}, 1: {"Y": (None, (0, "Y", True))}})
    out.append({0: {"X": ((1, "Y", True), (1, "Y", True))}, 1: {"Y": ((0, "X", True), (0, "X", True))}})
    out.append({0: {"X": (None, None)}, 1: {"Y": (None, None)}})
    out.append({0: {"X": ((0, "X", False), (0, "X", False))}, 1: {}})
    return out


def full(table, F, axes):
    """give every face an entry for every axis (None links) so that slots exist"""
    return {f: {a: list(table.get(f, {}).get(a, (None, None))) for a in axes} for f in range(F)}


def cases(tier):
    import os
    import random
    out = []
    for pres in itertools.product((0, 1), repeat=4):
        out.append(dict(kind="2x1", present=list(pres)))
    for bi, base in enumerate(base_tables_2x2()):
        tb = full(base, 2, ["X", "Y"])
        slots = [(f, a, s) for f in range(2) for a in "XY" for s in (0, 1)]
        for s1 in range(len(slots)):
            out.append(dict(kind="edit", F=2, base=t2j(tb), free=[list(slots[s1])], base_id=bi))
        if tier == "quick" and bi not in (1, 6, 8, 9):
            continue
        for s1, s2 in itertools.combinations(range(len(slots)), 2):
            out.append(dict(kind="edit", F=2, base=t2j(tb), free=[list(slots[s1]), list(slots[s2])], base_id=bi))
    out.append(dict(kind="misc"))
    if tier == "thorough":
        rng = random.Random(int(os.environ.get("VERIF_SEED", "0")))
        bases = []
        for k2 in itertools.product(KINDS, repeat=2):
            t = chain_table(list(k2))
            if t is not None:
                bases.append(t)
        for k3 in itertools.product(KINDS, repeat=3):
            t = chain_table(list(k3), ring=True)
            if t is not None:
                bases.append(t)
        for bi, base in enumerate(rng.sample(bases, 24)):
            tb = full(base, 3, ["X", "Y"])
            slots = [(f, a, s) for f in range(3) for a in "XY" for s in (0, 1)]
            for s1, s2 in itertools.combinations(range(len(slots)), 2):
                out.append(dict(kind="edit", F=3, base=t2j(tb), free=[list(slots[s1]), list(slots[s2])], base_id=100 + bi))
        for F in (4, 5, 6):
            for n in range(12):
                ks = [rng.choice(KINDS) for _ in range(F)]
                t = chain_table(ks, ring=True) or chain_table(ks[:-1])
                if t is None:
                    continue
                tb = full(t, F, ["X", "Y"])
                # add a self-link where a face has a free X pair
                for f in range(F):
                    if tb[f]["X"] == [None, None]:
                        tb[f]["X"] = [(f, "X", False), (f, "X", False)]
                        break
                slots = [(f, a, s) for f in range(F) for a in "XY" for s in (0, 1)]
                for sl in slots:
                    out.append(dict(kind="edit", F=F, base=t2j(tb), free=[list(sl)], base_id=1000 + n))
    return out


def B(x):
    if isinstance(x, SBool):
        return x.t
    if isinstance(x, z3.BoolRef):
        return x
    return z3.BoolVal(bool(x))


def I(x):
    if isinstance(x, SInt):
        return x.t
    if isinstance(x, z3.ArithRef):
        return x
    return z3.IntVal(int(x))


def spec_reciprocal(slots, F, table_axes, grid_axes):
    """slots: {(f, axis, side): (present, face, axis_index, rev)} with symbolic or concrete fields.
    Accepted iff every present link names an existing face and grid axis, and the named face's table
    holds, on the side implied by the reverse flag, a present link back to the originating face and
    axis with the same reverse flag."""
    conj = []
    for (f, ax, side), (p, g, ai, rev) in slots.items():
        alts = []
        for g0 in range(F):
            for ax0 in grid_axes:
                if (g0, ax0, 0) not in slots:
                    continue  # the named face has no entry for that axis
                for rv in (False, True):
                    nside = side if rv else 1 - side
                    pt, gt, at, rt = slots[(g0, ax0, nside)]
                    alts.append(z3.And(I(g) == g0, I(ai) == AXN.index(ax0), B(rev) == rv,
                                       B(pt), I(gt) == f, I(at) == AXN.index(ax), B(rt) == rv))
        conj.append(z3.Or(z3.Not(B(p)), z3.Or(*alts) if alts else z3.BoolVal(False)))
    return z3.And(*conj)


def run_table(W, slots, F, axes_in_table, label):
    import xgcm
    fc = {}
    for f in range(F):
        d = {}
        for ax in axes_in_table[f]:
            pair = []
            for side in (0, 1):
                p, g, ai, rev = slots[(f, ax, side)]
                if p:  # fork on presence (symbolic) / plain bool
                    pair.append((g, AXN[int(ai)], rev))
                else:
                    pair.append(None)
            d[ax] = tuple(pair)
        fc[f] = d
    ds = xr.Dataset(coords={"face": np.arange(F), "xc": np.arange(2) + 0.5, "yc": np.arange(2) + 0.5})
    try:
        with warnings.catch_warnings():
            warnings.simplefilter("ignore")
            xgcm.Grid(ds, coords={"X": {"center": "xc"}, "Y": {"center": "yc"}}, periodic=False,
                      face_connections={"face": fc}, autoparse_metadata=False)
        ok = True
    except Exception:
        ok = False
    spec = spec_reciprocal(slots, F, None, ["X", "Y"])
    if W.sym:
        W.require(label + (":accepted" if ok else ":refused"), SBool(spec == z3.BoolVal(ok)),
                  "constructor %s the table but the reciprocity specification says otherwise" % ("accepted" if ok else "refused"))
    else:
        sv = z3.is_true(z3.simplify(spec))
        W.require(label + (":accepted" if ok else ":refused"), sv == ok,
                  "constructor %s; specification says %s; table %r" % ("accepted" if ok else "refused", "accept" if sv else "refuse", fc))
    W.record(label, [ok])


def sym_slot(W, name, F):
    p = W.boolean("p_" + name)
    g = W.integer("f_" + name, 0, F)
    a = W.integer("a_" + name, 0, 2)
    r = W.boolean("r_" + name)
    return (p, g, a, r)


def case(W, cfg):
    W.incremental = True
    if cfg["kind"] == "2x1":
        slots = {}
        for f in (0, 1):
            for side in (0, 1):
                nm = "%d%d" % (f, side)
                if cfg["present"][f * 2 + side]:
                    g = W.integer("f_" + nm, 0, 2)
                    a = W.integer("a_" + nm, 0, 2)
                    r = W.boolean("r_" + nm)
                    slots[(f, "X", side)] = (True, g, a, r)
                else:
                    slots[(f, "X", side)] = (False, 0, 0, False)
        run_table(W, slots, 2, {0: ["X"], 1: ["X"]}, "2x1")
        return
    if cfg["kind"] == "edit":
        F = cfg["F"]
        base = j2t(cfg["base"])
        free = [tuple(x) for x in cfg["free"]]
        slots = {}
        for f in range(F):
            for ax in base[f]:
                for side in (0, 1):
                    key = (f, ax, side)
                    if key in free:
                        slots[key] = sym_slot(W, "%d%s%d" % key, F)
                    else:
                        l = base[f][ax][side]
                        slots[key] = (True, l[0], AXN.index(l[1]), bool(l[2])) if l else (False, 0, 0, False)
        run_table(W, slots, F, {f: list(base[f]) for f in range(F)}, "edit")
        return
    # misc: more than one face dimension; face dimension absent from the dataset
    import xgcm
    ds = xr.Dataset(coords={"face": [0, 1], "tile": [0, 1], "xc": [0.5, 1.5]})
    ok_table = {0: {"X": (None, (1, "X", False))}, 1: {"X": ((0, "X", False), None)}}
    for name, fc in (("two-face-dims", {"face": ok_table, "tile": ok_table}), ("absent-face-dim", {"nosuchdim": ok_table})):
        try:
            with warnings.catch_warnings():
                warnings.simplefilter("ignore")
                xgcm.Grid(ds, coords={"X": {"center": "xc"}}, periodic=False, face_connections=fc, autoparse_metadata=False)
            W.require("misc:" + name, False, "accepted")
        except Exception:
            W.require("misc:" + name, True)
    # other spellings of the same table: reverse flags as numpy booleans / 0-1 integers, links as lists.  A table is
    # accepted in one spelling iff it is accepted in the other (differential, concrete; the symbolic cases decide which)
    ds2 = xr.Dataset(coords={"face": [0, 1], "xc": [0.5, 1.5], "yc": [0.5, 1.5]})

    def accepted(tb):
        try:
            with warnings.catch_warnings():
                warnings.simplefilter("ignore")
                xgcm.Grid(ds2, coords={"X": {"center": "xc"}, "Y": {"center": "yc"}}, periodic=False, face_connections={"face": tb}, autoparse_metadata=False)
            return True
        except Exception:
            return False

    def respell(tb, flag, seq):
        return {f: {a: tuple(None if l is None else seq([l[0], l[1], flag(l[2])]) for l in pair) for a, pair in d.items()} for f, d in tb.items()}
    tables = []
    for base in base_tables_2x2():
        tables.append(base)
        # one-sided variants: drop each link in turn, flip each reverse flag in turn
        for f, d in base.items():
            for a, pair in d.items():
                for side in (0, 1):
                    if pair[side] is None:
                        continue
                    for edit in ("drop", "flip"):
                        t2 = {g: {b: list(p) for b, p in dd.items()} for g, dd in base.items()}
                        t2[f][a][side] = None if edit == "drop" else (pair[side][0], pair[side][1], not pair[side][2])
                        tables.append({g: {b: tuple(p) for b, p in dd.items()} for g, dd in t2.items()})
    n_acc = 0
    for tb in tables:
        ref = accepted(tb)
        n_acc += int(ref)
        for nm_, flag, seq in (("numpy-bool-flags", np.bool_, tuple), ("int-flags", int, tuple), ("list-links", bool, list)):
            W.require("misc:spelling:" + nm_, accepted(respell(tb, flag, seq)) == ref, "table %s: %s with Python bools / tuples, the opposite as %s" % (tb, "accepted" if ref else "refused", nm_))
    W.require("misc:spelling-corpus-has-both-outcomes", 0 < n_acc < len(tables), "%d of %d accepted" % (n_acc, len(tables)))
    try:
        with warnings.catch_warnings():
            warnings.simplefilter("ignore")
            xgcm.Grid(ds, coords={"X": {"center": "xc"}}, periodic=False, face_connections={"face": ok_table}, autoparse_metadata=False)
        W.require("misc:consistent-accepted", True)
    except Exception as e:
        W.require("misc:consistent-accepted", False, repr(e))


if __name__ == "__main__":
    sys.exit(harness.main(sys.modules[__name__]))
