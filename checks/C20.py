"""C20 Ill-posed requests raise instead of returning an array."""
import itertools
import sys
import warnings

import numpy as np
import xarray as xr
import z3

from lib import harness
from lib.grids import axis_dims, layouts, make_ds, make_grid
from specs.stencil import plen, valid_shift
from checks.C07 import make_grid as make_zgrid

ID = "C20"
FUNCTIONS = ["xgcm.grid:Grid._get_dims_from_axis", "xgcm.axis:Axis.__init__", "xgcm.axis:Axis._get_position_name", "xgcm.grid:_select_grid_ufunc",
             "xgcm.grid_ufunc:apply_as_grid_ufunc", "xgcm.grid_ufunc:_identify_dummy_axes_with_real_axes", "xgcm.transform:transform",
             "xgcm.transform:interp_1d_conservative", "xgcm.grid:Grid.cumsum", "xgcm.grid:Grid._1d_grid_ufunc_dispatch"]
BOUNDS = {
    "quick": {"layouts": "all 16 position subsets, N in {2,3}, every valid call of diff/interp/min/max/cumsum and each single ill-posing edit: axis the grid lacks, data lacking / having two dimensions of the axis, same-position shift, shift to a position the axis lacks, centre-less shift (left->right...), unknown boundary word (pool), unknown position word (pool), non-numeric fill value at construction",
              "data-dependent refusals (solver-decided)": "conservative transform with symbolic non-monotonic bins (every ordering pattern that is not strictly monotonic, m<=4): every path raises; transform along a periodic axis; conservative transform without outer positions",
              "grid ufuncs": "wrong positions on one of several inputs and wrong number of inputs (see also C11)"},
    "thorough": {"layouts": "N in {2,3,4}, 2-axis grids"},
}
OUTSIDE = ["boundary/position words and fill values are drawn from a finite pool (explored, not solver-decided)", "errors raised lazily at compute time of dask results"]
ASSUMPTIONS = ["data finite"]
BAD_WORDS = ["", "Fill", "filled", "periodi", "extends", "wrap", "constant", "edge", "center", "nearest", "none", "PERIODIC", "fill ", "dirichlet"]
BAD_POS = ["", "centre", "Center", "middle", "lefty", "outer_", "in", "face", "c", "rightt", "innerouter"]
BAD_FILL = ["0", "nan", [0.0], (1,), object, 1 + 2j]


def cases(tier):
    out = []
    for N in ([2, 3] if tier == "quick" else [2, 3, 4]):
        for layout in layouts():
            out.append(dict(kind="edits", N=N, layout=list(layout)))
    for m in (1, 2, 3) if tier == "quick" else (1, 2, 3, 4):
        for pat in itertools.product((0, 1, 2), repeat=m):
            if all(p == 0 for p in pat) or all(p == 2 for p in pat):
                continue  # strictly monotonic
            out.append(dict(kind="bins", m=m, pat=list(pat)))
    for N in (2, 3):
        for frm in ("center", "left", "outer"):
            out.append(dict(kind="metric-edits", N=N, frm=frm))
    out.append(dict(kind="transform"))
    out.append(dict(kind="ctor"))
    return out


def must_raise(W, label, fn, detail):
    try:
        with warnings.catch_warnings():
            warnings.simplefilter("ignore")
            r = fn()
        if hasattr(r, "compute"):
            pass
        W.require("refused:" + label, False, "%s returned %s instead of raising" % (detail, type(r).__name__))
    except Exception:
        W.require("refused:" + label, True)


def case(W, cfg):
    return {"metric-edits": case_metric_edits, "edits": case_edits, "bins": case_bins, "transform": case_transform, "ctor": case_ctor}[cfg["kind"]](W, cfg)


def case_edits(W, cfg):
    N, layout = cfg["N"], tuple(cfg["layout"])
    axes = {"X": layout, "Y": ("center", "left")}
    ds = make_ds(axes, N, {"t": 2})
    dims = axis_dims("X", layout)
    ydims = axis_dims("Y", axes["Y"])
    allpos = ["center", "left", "right", "inner", "outer"]
    for gkw in (dict(), dict(periodic=False), dict(periodic=False, boundary="extend")):
        grid = make_grid(ds, axes, **gkw)
        for frm in layout:
            a = W.data("a", (2, plen(frm, N)))
            da = xr.DataArray(a, dims=["t", dims[frm]])
            if frm == "center" and len(layout) > 1:
                # the same classes of edits on a user function applied as a grid ufunc
                from xgcm.grid_ufunc import apply_as_grid_ufunc
                to0 = [p for p in layout if p != "center"][0]
                lacking = [p for p in allpos if p not in layout]
                k = plen(to0, N) - N  # length change centre -> to0
                width = {"left": (1, 0), "right": (0, 1), "outer": (1, 1), "inner": (0, 0)}[to0]

                def fn(x):
                    return x[..., 1:] - x[..., :-1]
                sig = "(X:center)->(X:%s)" % to0

                def call(*args, axis=(("X",),), signature=sig, method=True, **kw):
                    kw.setdefault("boundary_width", {"X": width})
                    if method:
                        return grid.apply_as_grid_ufunc(fn, *args, axis=list(axis), signature=signature, **kw)
                    return apply_as_grid_ufunc(fn, *args, axis=list(axis), grid=grid, signature=signature, **kw)
                for method in (True, False):
                    try:
                        with warnings.catch_warnings():
                            warnings.simplefilter("ignore")
                            r = call(da, method=method)
                        W.require("valid-call-answered", isinstance(r, xr.DataArray), "ufunc %s" % sig)
                    except Exception as e:  # noqa
                        W.require("valid-call-answered", False, "ufunc %s raised %s: %s" % (sig, type(e).__name__, str(e)[:120]))
                    must_raise(W, "ufunc-axis-the-grid-lacks", lambda: call(da, axis=(("Q",),), method=method), "ufunc along axis 'Q'")
                    must_raise(W, "ufunc-inputs-on-the-wrong-positions", lambda: call(da, signature="(X:%s)->(X:center)" % to0, method=method), "ufunc: centre data for signature input %s" % to0)
                    must_raise(W, "ufunc-inputs-in-the-wrong-number", lambda: call(da, da, method=method), "ufunc: two inputs for a one-input signature")
                    must_raise(W, "ufunc-inputs-in-the-wrong-number", lambda: call(method=method), "ufunc: no input for a one-input signature")
                    must_raise(W, "ufunc-inputs-in-the-wrong-number", lambda: call(da, axis=(("X",), ("X",)), method=method), "ufunc: two axis entries for one input")
                    must_raise(W, "ufunc-inputs-in-the-wrong-number", lambda: call(da, axis=(("X", "Y"),), method=method), "ufunc: two axes for a one-axis argument")
                    for q in lacking[:2]:
                        must_raise(W, "ufunc-position-the-axis-lacks", lambda q=q: call(da, signature="(X:center)->(X:%s)" % q, method=method), "ufunc: output position %s on layout %s" % (q, layout))
                        must_raise(W, "ufunc-position-the-axis-lacks", lambda q=q: call(da, signature="(X:%s)->(X:center)" % q, method=method), "ufunc: input position %s on layout %s" % (q, layout))
                    for w in BAD_POS[:4]:
                        must_raise(W, "ufunc-unknown-position-word", lambda w=w: call(da, signature="(X:center)->(X:%s)" % w, method=method), "ufunc signature position %r" % w)
                    for w in BAD_WORDS[:4]:
                        if width != (0, 0):
                            must_raise(W, "ufunc-unknown-boundary-word", lambda w=w: call(da, boundary=w, method=method), "ufunc boundary=%r" % w)
                # a vector component keyed by an axis the grid lacks
                must_raise(W, "axis-the-grid-lacks", lambda: grid.diff({"Q": da}, "X", to=to0), "diff of {'Q': component}")
            if frm != "center" and valid_shift(frm, "center"):
                # the two-component wrappers move a staggered vector to the cell centres: a component that already sits at
                # the centre of its own axis is a same-position shift, any other target is one they cannot make
                yfrm = "left"
                ny = ds.sizes[ydims["center"]]
                u_ok = xr.DataArray(W.data("u2", (ny, plen(frm, N))), dims=[ydims["center"], dims[frm]])
                v_ok = xr.DataArray(W.data("v2", (ds.sizes[ydims[yfrm]], N)), dims=[ydims[yfrm], dims["center"]])
                u_c = xr.DataArray(W.data("u3", (ny, N)), dims=[ydims["center"], dims["center"]])
                for wname in ("diff_2d_vector", "interp_2d_vector"):
                    wf = getattr(grid, wname)
                    try:
                        with warnings.catch_warnings():
                            warnings.simplefilter("ignore")
                            r = wf({"X": u_ok, "Y": v_ok})
                        W.require("valid-call-answered", isinstance(r, dict) and set(r) == {"X", "Y"}, "%s of a staggered vector" % wname)
                    except Exception as e:  # noqa
                        W.require("valid-call-answered", False, "%s of a staggered vector raised %s: %s" % (wname, type(e).__name__, str(e)[:100]))
                    must_raise(W, "same-position-shift", lambda: wf({"X": u_c, "Y": v_ok}), "%s with the X component already at centre" % wname)
                    must_raise(W, "same-position-shift", lambda: wf({"X": u_ok, "Y": u_c}), "%s with the Y component already at centre" % wname)
                    must_raise(W, "same-position-shift", lambda: wf({"X": u_c, "Y": u_c}), "%s with both components at centre" % wname)
                    must_raise(W, "shift-the-axis-cannot-make", lambda: wf({"X": u_ok, "Y": v_ok}, to=frm), "%s to=%s" % (wname, frm))
                    must_raise(W, "axis-the-grid-lacks", lambda: wf({"X": u_ok, "Q": v_ok}), "%s with a component keyed 'Q'" % wname)
            for op in ("diff", "interp", "min", "max", "cumsum"):
                f = getattr(grid, op)
                # a valid call exists for this source position?
                valid_to = [p for p in layout if valid_shift(frm, p)]
                for to in valid_to[:1]:
                    try:
                        with warnings.catch_warnings():
                            warnings.simplefilter("ignore")
                            r = f(da, "X", to=to)
                        W.require("valid-call-answered", isinstance(r, xr.DataArray), "%s %s->%s" % (op, frm, to))
                    except Exception as e:  # noqa
                        W.require("valid-call-answered", False, "%s %s->%s raised %s" % (op, frm, to, type(e).__name__))
                must_raise(W, "axis-the-grid-lacks", lambda: f(da, "Q", to="center" if frm != "center" else None), "%s along axis 'Q'" % op)
                must_raise(W, "axis-the-grid-lacks", lambda: f(da, ["X", "Q"]), "%s along ['X','Q']" % op)
                must_raise(W, "data-lacks-the-axis-dimension", lambda: f(xr.DataArray(a[:, 0], dims=["t"]), "X"), "%s on data without an X dimension" % op)
                must_raise(W, "data-lacks-the-axis-dimension", lambda: f(da, "Y"), "%s along Y on data without a Y dimension" % op)
                others = [p for p in layout if p != frm]
                if others:
                    two = xr.DataArray(W.data("b", (plen(others[0], N), plen(frm, N))), dims=[dims[others[0]], dims[frm]])
                    must_raise(W, "data-has-two-dimensions-of-the-axis", lambda: f(two, "X"), "%s on data with dims %s" % (op, two.dims))
                must_raise(W, "same-position-shift", lambda: f(da, "X", to=frm), "%s %s->%s" % (op, frm, frm))
                for to in allpos:
                    if to not in layout:
                        must_raise(W, "shift-to-a-position-the-axis-lacks", lambda to=to: f(da, "X", to=to), "%s %s->%s on layout %s" % (op, frm, to, layout))
                    elif to != frm and not valid_shift(frm, to):
                        must_raise(W, "shift-the-axis-cannot-make", lambda to=to: f(da, "X", to=to), "%s %s->%s" % (op, frm, to))
                for w in BAD_POS:
                    must_raise(W, "unknown-position-word", lambda w=w: f(da, "X", to=w), "%s to=%r" % (op, w))
                if valid_to:
                    for w in BAD_WORDS:
                        must_raise(W, "unknown-boundary-word", lambda w=w: f(da, "X", to=valid_to[0], boundary=w), "%s boundary=%r" % (op, w))
                        must_raise(W, "unknown-boundary-word", lambda w=w: f(da, "X", to=valid_to[0], boundary={"X": w}), "%s boundary={'X': %r}" % (op, w))
                        # the valid call boundary={'X': 'fill', 'Y': 'extend'} with one of its two words replaced
                        must_raise(W, "unknown-boundary-word", lambda w=w: f(da, "X", to=valid_to[0], boundary={"X": w, "Y": "extend"}), "%s boundary={'X': %r, 'Y': 'extend'}" % (op, w))
                        must_raise(W, "unknown-boundary-word", lambda w=w: f(da, "X", to=valid_to[0], boundary={"X": "fill", "Y": w}), "%s along X with boundary={'X': 'fill', 'Y': %r}" % (op, w))


def case_metric_edits(W, cfg):
    """the metric-based operations refuse the same ill-posed data"""
    N, frm = cfg["N"], cfg["frm"]
    axes = {"X": ("center", "left", "outer"), "Y": ("center", "left")}
    ds = make_ds(axes, N, {"t": 2})
    dims = axis_dims("X", axes["X"])
    for p, d in dims.items():
        ds["dx_" + p] = ((d,), np.arange(1, plen(p, N) + 1) * 1.0)
    ds["dy"] = (("yc",), np.arange(1, N + 1) * 1.0)
    grid = make_grid(ds, axes, periodic=False, boundary="extend", metrics={("X",): ["dx_" + p for p in dims], ("Y",): ["dy"]})
    a = W.data("a", (2, plen(frm, N)))
    da = xr.DataArray(a, dims=["t", dims[frm]])
    other = [p for p in dims if p != frm][0]
    two = xr.DataArray(W.data("b", (plen(other, N), plen(frm, N))), dims=[dims[other], dims[frm]])
    nodim = xr.DataArray(a[:, 0], dims=["t"])
    ops = {"integrate": lambda x, ax: grid.integrate(x, ax), "average": lambda x, ax: grid.average(x, ax), "cumint": lambda x, ax: grid.cumint(x, ax, boundary="fill"),
           "derivative": lambda x, ax: grid.derivative(x, ax), "get_metric": lambda x, ax: grid.get_metric(x, ax if isinstance(ax, (list, tuple)) else (ax,))}
    for name, f in ops.items():
        try:
            with warnings.catch_warnings():
                warnings.simplefilter("ignore")
                r = f(da, "X")
            W.require("valid-call-answered", isinstance(r, xr.DataArray), name)
        except Exception as e:  # noqa
            if not (name in ("cumint", "derivative") and frm != "center"):
                W.require("valid-call-answered", False, "%s on %s raised %s: %s" % (name, frm, type(e).__name__, str(e)[:80]))
        must_raise(W, "axis-the-grid-lacks", lambda: f(da, "Q"), "%s along axis 'Q'" % name)
        must_raise(W, "axis-the-grid-lacks", lambda: f(da, ["X", "Q"]), "%s along ['X','Q']" % name)
        must_raise(W, "data-lacks-the-axis-dimension", lambda: f(nodim, "X"), "%s on data without an X dimension" % name)
        must_raise(W, "data-lacks-the-axis-dimension", lambda: f(da, "Y"), "%s along Y on data without a Y dimension" % name)
        must_raise(W, "data-lacks-the-axis-dimension", lambda: f(da, ["X", "Y"]), "%s along ['X','Y'] on data without a Y dimension" % name)
        must_raise(W, "data-has-two-dimensions-of-the-axis", lambda: f(two, "X"), "%s on data with dims %s" % (name, two.dims))


def case_ctor(W, cfg):
    import xgcm
    axes = {"X": ("center", "left"), "Y": ("center", "outer")}
    ds = make_ds(axes, 3)
    coords = {ax: axis_dims(ax, lay) for ax, lay in axes.items()}
    for w in BAD_WORDS:
        if w in ("",):
            continue  # an empty string is falsy: treated as 'not given' by the constructor
        must_raise(W, "ctor-unknown-boundary-word", lambda w=w: xgcm.Grid(ds, coords=coords, periodic=False, boundary=w, autoparse_metadata=False), "Grid(boundary=%r)" % w)
        must_raise(W, "ctor-unknown-boundary-word", lambda w=w: xgcm.Grid(ds, coords=coords, periodic=False, boundary={"X": w}, autoparse_metadata=False), "Grid(boundary={'X': %r})" % w)
    for fv in BAD_FILL:
        must_raise(W, "ctor-non-numeric-fill-value", lambda fv=fv: xgcm.Grid(ds, coords=coords, periodic=False, fill_value=fv, autoparse_metadata=False), "Grid(fill_value=%r)" % (fv,))
        must_raise(W, "ctor-non-numeric-fill-value", lambda fv=fv: xgcm.Grid(ds, coords=coords, periodic=False, fill_value={"Y": fv}, autoparse_metadata=False), "Grid(fill_value={'Y': %r})" % (fv,))
    for w in BAD_POS:
        must_raise(W, "ctor-unknown-position-word", lambda w=w: xgcm.Grid(ds, coords={"X": {"center": "xc", w: "xl"}}, periodic=False, autoparse_metadata=False), "Grid(coords={'X': {%r: ...}})" % w)
        must_raise(W, "ctor-default-shift-to-itself-or-unknown", lambda w=w: xgcm.Grid(ds, coords=coords, periodic=False, default_shifts={"X": {"center": "center"}}, autoparse_metadata=False), "default shift center->center")
    must_raise(W, "ctor-missing-dimension", lambda: xgcm.Grid(ds, coords={"X": {"center": "xc", "left": "nosuchdim"}}, periodic=False, autoparse_metadata=False), "dimension not in dataset")
    must_raise(W, "ctor-not-a-dataset", lambda: xgcm.Grid(ds["xc"], coords=coords, autoparse_metadata=False), "DataArray as ds")


def case_bins(W, cfg):
    """non-monotonic conservative target bins are refused for all values"""
    m, pat = cfg["m"], cfg["pat"]
    n = 2
    grid = make_zgrid(n)
    phi = W.data("phi", (n,))
    th = W.data("th", (n + 1,))
    if W.sym:
        b = W.data("b", (m + 1,))
        for j, p in enumerate(pat):
            W.assume((b[j] < b[j + 1]) if p == 0 else ((b[j] == b[j + 1]) if p == 1 else (b[j] > b[j + 1])))
    else:
        vals = [0.0]
        for p in pat:
            vals.append(vals[-1] + (1.5 if p == 0 else 0.0 if p == 1 else -1.25))
        b = np.array(vals)
        for j in range(m + 1):
            if ("b_%d" % j) in W.env:
                b[j] = W.env["b_%d" % j]
        W.assume(all(((b[j] < b[j + 1]) if p == 0 else (b[j] == b[j + 1]) if p == 1 else (b[j] > b[j + 1])) for j, p in enumerate(pat)))
    pda = xr.DataArray(phi, dims=["zc"], name="phi")
    tda = xr.DataArray(th, dims=["zo"], name="theta")
    must_raise(W, "non-monotonic-conservative-bins", lambda: grid.transform(pda, "Z", b, target_data=tda, method="conservative"), "bins pattern %s" % pat)


def case_transform(W, cfg):
    import xgcm
    n = 3
    ds = xr.Dataset(coords={"zc": np.arange(n) + 0.5, "zo": np.arange(n + 1) * 1.0, "zg": np.arange(n) * 1.0})
    phi = xr.DataArray(W.data("phi", (n,)), dims=["zc"], name="phi")
    thc = xr.DataArray(np.array([1.0, 2.0, 4.0]), dims=["zc"], name="theta")
    tho = xr.DataArray(np.array([0.5, 1.5, 3.0, 4.5]), dims=["zo"], name="theta")
    lev = np.array([1.5, 3.0])
    with warnings.catch_warnings():
        warnings.simplefilter("ignore")
        per = xgcm.Grid(ds, coords={"Z": {"center": "zc", "outer": "zo"}}, autoparse_metadata=False)
        bper = xgcm.Grid(ds, coords={"Z": {"center": "zc", "outer": "zo"}}, periodic=False, boundary="periodic", autoparse_metadata=False)
        noouter = xgcm.Grid(ds, coords={"Z": {"center": "zc", "left": "zg"}}, periodic=False, autoparse_metadata=False)
        ok = xgcm.Grid(ds, coords={"Z": {"center": "zc", "outer": "zo"}}, periodic=False, autoparse_metadata=False)
    for method, td, tg in (("linear", thc, lev), ("log", thc, lev), ("conservative", tho, np.array([0.5, 2.0, 4.5]))):
        must_raise(W, "transform-along-periodic-axis", lambda: per.transform(phi, "Z", tg, target_data=td, method=method), "periodic grid, %s" % method)
        must_raise(W, "transform-along-periodic-axis", lambda: bper.transform(phi, "Z", tg, target_data=td, method=method), "boundary='periodic', %s" % method)
        must_raise(W, "transform-unknown-axis", lambda: ok.transform(phi, "Q", tg, target_data=td, method=method), "axis Q")
        must_raise(W, "transform-wrong-argument-type", lambda: ok.transform(phi, "Z", list(tg), target_data=td, method=method), "target as list")
        must_raise(W, "transform-wrong-argument-type", lambda: ok.transform(phi.values, "Z", tg, target_data=td, method=method), "da as ndarray")
    must_raise(W, "conservative-without-outer-positions", lambda: noouter.transform(phi, "Z", np.array([0.5, 2.0, 4.5]), target_data=thc, method="conservative"), "no outer position")
    extra = xr.DataArray(np.ones((2, n)), dims=["ens", "zc"], name="theta")
    must_raise(W, "transform-target_data-with-extra-dimensions", lambda: ok.transform(phi, "Z", lev, target_data=extra), "target_data has a dimension da lacks")
    try:
        r = ok.transform(phi, "Z", lev, target_data=thc)
        W.require("valid-call-answered", isinstance(r, xr.DataArray), "valid linear transform")
    except Exception as e:  # noqa
        W.require("valid-call-answered", False, "valid linear transform raised %s" % type(e).__name__)


if __name__ == "__main__":
    sys.exit(harness.main(sys.modules[__name__]))
