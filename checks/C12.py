"""C12 Results do not depend on the hash seed or on table ordering."""
import itertools
import json
import os
import subprocess
import sys

import numpy as np

from lib import harness
from sx import nondet
from checks import C12_scen

ID = "C12"
FUNCTIONS = ["xgcm.padding:_get_all_connection_axes", "xgcm.padding:_pad_face_connections", "xgcm.padding:pad",
             "xgcm.grid_ufunc:_GridUFuncSignature.equivalent", "xgcm.grid:_select_grid_ufunc", "xgcm.comodo:get_all_axes",
             "xgcm.sgrid:get_all_axes", "xgcm.metadata_parsers:parse_comodo", "xgcm.metadata_parsers:parse_sgrid",
             "xgcm.grid:Grid.__init__", "xgcm.metrics:iterate_axis_combinations", "xgcm.grid:Grid.get_metric"]
BOUNDS = {
    "quick": {"hash seed": "modelled as the iteration order of every set/frozenset created in the xgcm modules: every permutation of every iterated set is a branch of the exploration (a superset of what any PYTHONHASHSEED produces)",
              "table order": "8 insertion orders of the face-connection table (faces and per-face axes)",
              "halo": "2x2 faces linked on both axes (periodic and open), fill/extend/periodic, 2-D width sets with widths <= 1, all data symbolic, corner cells included",
              "signatures": "10 pairs of 2- and 3-axis signatures (renamings, merged/split names, swapped positions)",
              "parsed metadata": "COMODO 2-3 axes (axis names X/Y/Z and free-text names), SGRID 2-D, 2-D+vertical, 3-D", "metrics": "8 registries over 3 axes offering several partitions"},
    "thorough": {"halo": "widths <= 2", "parsed metadata": "+ 4 axes (COMODO)", "metrics": "+ get_metric(XYZ) on all 35 registries of 2-3 pair/single metrics"},
}
OUTSIDE = ["other conceivable seed effects: dict order is insertion order and id()-based ordering does not occur in the xgcm source (source scan, not explored)",
           "set displays/comprehensions cannot be intercepted by name injection: a source scan asserts none exist"]
ASSUMPTIONS = ["the hash seed influences xgcm only through set iteration order", "replay: two real PYTHONHASHSEED values must reproduce a difference in fresh interpreters"]
MAX_PATHS = 50000
CONSISTENCY_EVERY = {"quick": 9, "thorough": 23}

TABLE_ORDERS = [
    ([0, 1, 2, 3], [0, 0, 0, 0]), ([3, 2, 1, 0], [0, 0, 0, 0]), ([0, 1, 2, 3], [1, 1, 1, 1]), ([0, 1, 2, 3], [1, 0, 0, 0]),
    ([1, 0, 3, 2], [0, 1, 0, 1]), ([2, 3, 0, 1], [1, 1, 0, 0]), ([3, 0, 2, 1], [0, 0, 1, 0]), ([1, 2, 3, 0], [1, 0, 1, 1]),
]
SIG_PAIRS = [
    ("(X:center,Y:left)->(X:left,Y:center)", "(A:center,B:left)->(A:left,B:center)"),
    ("(X:center,Y:center)->(X:left,Y:left)", "(Y:center,X:center)->(Y:left,X:left)"),
    ("(X:center,Y:left)->(X:left,Y:center)", "(B:center,A:left)->(B:left,A:center)"),
    ("(X:center,Y:left)->(Y:left,X:center)", "(A:center,B:left)->(A:left,B:center)"),
    ("(X:center),(Y:left)->(X:left,Y:center)", "(P:center),(Q:left)->(P:left,Q:center)"),
    ("(X:center),(Y:left)->(X:left,Y:center)", "(P:center),(Q:left)->(Q:left,P:center)"),
    ("(X:center,Y:left,Z:outer)->(Z:center,X:left)", "(I:center,J:left,K:outer)->(K:center,I:left)"),
    ("(X:center,Y:left,Z:outer)->(Z:center,X:left)", "(K:center,J:left,I:outer)->(I:center,K:left)"),
    ("(X:center,Y:left,Z:outer)->(Z:center,X:left)", "(I:center,J:left,K:outer)->(J:center,I:left)"),
    ("(X:center,Y:center)->(X:left)", "(A:center,A:center)->(A:left)"),
]


def cases(tier):
    out = []
    w1 = [{"X": [1, 1], "Y": [1, 1]}, {"X": [1, 0], "Y": [0, 1]}, {"X": [0, 1], "Y": [1, 1]}]
    w2 = w1 + [{"X": [2, 1], "Y": [1, 2]}, {"X": [2, 2], "Y": [2, 2]}]
    for topo in ("periodic", "open"):
        for rule in ("fill", "extend", "periodic"):
            for ti in range(len(TABLE_ORDERS)):
                for w in (w1 if tier == "quick" else w2):
                    out.append(dict(scen="pad", topo=topo, rule=rule, widths=[w], order=ti))
                if ti < 3:
                    out.append(dict(scen="pad", topo=topo, rule=rule, widths=[], order=ti, diff=["X", "Y"]))
                    out.append(dict(scen="pad", topo=topo, rule=rule, widths=[], order=ti, diff=["Y", "X"]))
    for faces in (False, True):
        for w in ([{"X": [1, 1], "Y": [1, 1]}], [{"Y": [1, 0], "X": [0, 1]}], [{"X": [1, 0], "Y": [0, 1], "Z": [1, 1]}] if not faces else [{"Y": [2, 1], "X": [1, 2]}]):
            out.append(dict(scen="pad2", faces=faces, widths=w))
    # differential runs in fresh interpreters under real hash seeds: independent of how an unordered collection
    # arises in the code (dict-view algebra and set displays cannot be intercepted by name injection)
    out.append(dict(scen="pad2", faces=False, widths=[{"X": [1, 1], "Y": [1, 1]}], realseeds=True))
    out.append(dict(scen="pad2", faces=True, widths=[{"X": [1, 1], "Y": [1, 1]}], realseeds=True))
    out.append(dict(scen="pad", topo="periodic", rule="extend", widths=[{"X": [1, 1], "Y": [1, 1]}], order=0, realseeds=True))
    out.append(dict(scen="sig", pairs=[list(SIG_PAIRS[0]), list(SIG_PAIRS[6])], realseeds=True))
    out.append(dict(scen="parse", conv="comodo", axes=["X", "Y", "Z"], realseeds=True))
    out.append(dict(scen="parse", conv="sgrid", axes=["X", "Y", "Z"], realseeds=True))
    out.append(dict(scen="parse", conv="comodo", axes=["xi", "eta", "s"], realseeds=True))
    out.append(dict(scen="metric", registry=["a_xy", "dz", "a_xz", "dy"], requests=[["X", "Y", "Z"]], op="get_metric", realseeds=True))
    out.append(dict(scen="metric", registry=["a_xy", "a_xz", "a_yz", "dx", "dy", "dz"], requests=[["Z", "Y", "X"]], op="integrate", realseeds=True))
    for i in range(0, len(SIG_PAIRS)):
        out.append(dict(scen="sig", pairs=[list(SIG_PAIRS[i])]))
    # COMODO axis names are free text: conventional letters, other names, and a mix
    for axes in (["X", "Y"], ["X", "Y", "Z"], ["Y", "X"], ["Z", "Y", "X"], ["xi", "eta"], ["xi", "eta", "s"], ["lon", "lat"], ["X", "eta", "s"]) + ((["T", "X", "Y", "Z"], ["T", "xi", "eta", "s"]) if tier == "thorough" else ()):
        out.append(dict(scen="parse", conv="comodo", axes=axes))
    out.append(dict(scen="parse", conv="sgrid", axes=["X", "Y"]))
    out.append(dict(scen="parse", conv="sgrid", axes=["X", "Y", "Z"]))
    out.append(dict(scen="parse", conv="sgrid", axes=["X", "Y", "Z"], vertical=True))
    regs = [["a_xy", "dz", "a_xz", "dy"], ["a_xy", "dz", "a_yz", "dx"], ["a_xz", "dy", "a_yz", "dx"], ["a_xy", "a_xz", "a_yz", "dx", "dy", "dz"],
            ["dx", "dy", "dz"], ["a_xy", "dz", "dx", "dy"], ["a_xy", "a_xz", "dy", "dz", "dxg"], ["a_yz", "dx", "dxg", "dy", "dz"]]
    for r in regs:
        for req in (["X", "Y", "Z"], ["Z", "Y", "X"], ["X", "Y"], ["Y", "Z"]):
            for op in ("get_metric", "integrate"):
                if op == "integrate" and (len(req) < 3 or len(r) > 4 or req[0] != "X"):
                    continue
                out.append(dict(scen="metric", registry=r, requests=[req], op=op))
    if tier == "thorough":
        pool = ["a_xy", "a_xz", "a_yz", "dx", "dy", "dz"]
        for r in [list(c) for k in range(2, 4) for c in itertools.combinations(pool, k)]:
            if r not in regs:
                out.append(dict(scen="metric", registry=r, requests=[["X", "Y", "Z"]], op="get_metric"))
    return out


def prechecks(tier):
    hits = nondet.scan_sources(harness.repo_root())
    errs = ["set display/comprehension in %s:%d (%s) cannot be intercepted" % h for h in hits]
    return {"errors": errs, "coverage": {"dict_view_set_algebra_not_interceptable": nondet.scan_uninterceptable(harness.repo_root()), "set_literal_scan": "0 set displays / comprehensions in %d xgcm modules" % len(nondet.MODULES) if not hits else str(hits)}}


def scen_cfg(cfg, order_index):
    c = dict(cfg)
    if cfg["scen"] == "pad":
        pf, pa = TABLE_ORDERS[order_index]
        c["perm_faces"], c["perm_axes"] = pf, pa
    return c


def case(W, cfg):
    def mk(name, shape, positive=False):
        a = W.data(name, shape, gen=(lambda r: r.randint(2, 30) / 4.0) if positive else None)
        if positive and W.sym:
            for x in a.ravel():
                W.assume(x.t > 0)
        return a

    oi = cfg.get("order", 0)
    if W.sym and cfg.get("realseeds"):
        # not symbolic: a differential run under sampled real seeds (concrete seeded data), see cases()
        Wf = harness.World("float", seed=1)
        Wf.purpose = "realseeds"
        case(Wf, cfg)
        for f in Wf.failures:
            W.fail(f["label"], f["detail"])
        W.require("realseeds-run", True)
        W.record("realseeds", ["done"])
        return
    if W.sym:
        nondet.STATE["iterations"] = 0
        with nondet.injected():
            with nondet.baseline():
                base = C12_scen.run(scen_cfg(cfg, 0), mk)
            got = C12_scen.run(scen_cfg(cfg, oi), mk)
        W.require("same-observations", [t for t, _ in base] == [t for t, _ in got], "different observation tags: %s vs %s" % ([t for t, _ in base][:4], [t for t, _ in got][:4]))
        for (t, b), (_, g) in zip(base, got):
            if isinstance(b, list) and b and not isinstance(b[0], (str, tuple, list, bool)):
                W.equal("order-independent:" + t, g, b)
            else:
                W.require("order-independent:" + t, g == b, "%r under one set/table order, %r under the canonical one" % (g, b))
                W.record("order-independent:" + t, [str(json.loads(json.dumps(b, default=str)))])  # as the float run sees it (JSON: tuples are lists)
        return
    # float mode: fresh interpreters under real hash seeds, unmodified code
    purpose = getattr(W, "purpose", "consistency")
    seeds = list(range(24)) if purpose == "replay" else (list(range(10)) if purpose == "realseeds" or cfg.get("realseeds") else [0, 1, 2, 3, 5])
    # draw the concrete data once (names as in the symbolic run)
    probe = C12_scen.run(scen_cfg(cfg, 0), mk)
    env = dict(W.used)
    outs = {}
    procs = []
    for sd in seeds:
        for order in sorted({0, oi}):
            body = json.dumps({"cfg": scen_cfg(cfg, order), "env": env})
            e = dict(os.environ)
            e["PYTHONHASHSEED"] = str(sd)
            p = subprocess.Popen([sys.executable, "-W", "ignore", "-m", "checks.C12_scen"], stdin=subprocess.PIPE, stdout=subprocess.PIPE,
                                 stderr=subprocess.PIPE, text=True, env=e, cwd=harness.VERIF)
            p.stdin.write(body)
            p.stdin.close()
            procs.append((sd, order, p))
            if len(procs) >= 8:
                for sd_, o_, p_ in procs:
                    outs[(sd_, o_)] = (p_.stdout.read(), p_.stderr.read()[-300:], p_.wait())
                procs = []
    for sd_, o_, p_ in procs:
        outs[(sd_, o_)] = (p_.stdout.read(), p_.stderr.read()[-300:], p_.wait())
    ref_key = (seeds[0], 0)
    if outs[ref_key][2] != 0:
        raise harness.HarnessError("scenario subprocess failed: %s" % outs[ref_key][1])
    ref = json.loads(outs[ref_key][0])
    if cfg.get("realseeds"):
        W.record("realseeds", ["done"])
    else:
        for (t, v) in ref:
            if isinstance(v, list) and v and isinstance(v[0], float):
                W.record("order-independent:" + t, v)
            else:
                W.record("order-independent:" + t, [str(_py(v))])
    for key, (so, se, rc) in sorted(outs.items()):
        if rc != 0:
            W.fail("subprocess-failed", "seed %s order %s: %s" % (key[0], key[1], se))
            continue
        cur = json.loads(so)
        for (t, b), (t2, g) in zip(ref, cur):
            same = (t == t2) and _close(b, g)
            if not same:
                W.fail("order-independent:" + t, "PYTHONHASHSEED=%d table-order %d gives %s; PYTHONHASHSEED=%d table-order 0 gives %s" % (
                    key[0], key[1], str(g)[:160], ref_key[0], str(b)[:160]))


def _py(v):
    if isinstance(v, list):
        return [_py(x) for x in v]
    return v


def _close(a, b):
    if isinstance(a, list) and isinstance(b, list) and len(a) == len(b) and a and all(isinstance(x, float) for x in a + b):
        return all(abs(x - y) <= 1e-12 * max(1, abs(x), abs(y)) for x, y in zip(a, b))
    return _py(a) == _py(b)


def finding_key(cfg, v):
    lab = v["label"]
    if cfg["scen"] in ("pad", "pad2"):
        return "halo-corner-cells-depend-on-set-order"
    if cfg["scen"] == "sig":
        return "signature-equivalence-zips-sets"
    if cfg["scen"] == "parse":
        return "parsed-axis-order-from-set"
    if cfg["scen"] == "metric":
        return "metric-partition-choice-from-frozenset"
    return lab


if __name__ == "__main__":
    sys.exit(harness.main(sys.modules[__name__]))
