"""C11 Grid ufuncs receive padded core dims last and return declared positions."""
import itertools
import sys
import warnings
from typing import Annotated, Tuple

import numpy as np
import xarray as xr

from lib import harness
from specs.stencil import apply_along, spec_pad1d

ID = "C11"
FUNCTIONS = ["xgcm.grid_ufunc:as_grid_ufunc", "xgcm.grid_ufunc:GridUFunc.__init__", "xgcm.grid_ufunc:GridUFunc.__call__",
             "xgcm.grid_ufunc:GridUFunc._get_signature_from_str_or_type_hints", "xgcm.grid_ufunc:apply_as_grid_ufunc",
             "xgcm.grid_ufunc:_identify_dummy_axes_with_real_axes", "xgcm.grid_ufunc:_substitute_dummy_axis_names",
             "xgcm.grid_ufunc:_pad_then_rechunk", "xgcm.grid_ufunc:_apply", "xgcm.grid_ufunc:_reattach_coords",
             "xgcm.grid_ufunc:_parse_signature_from_string", "xgcm.grid_ufunc:_parse_signature_from_type_hints",
             "xgcm.grid:Grid.apply_as_grid_ufunc", "xgcm.padding:pad", "xgcm.padding:_pad_basic"]
BOUNDS = {
    "quick": {"signatures": "7 templates with 1-3 inputs, 0-2 outputs, 1-2 dummy axes per argument, positions from {center,left,outer}",
              "bindings": "every injective binding of the dummy axes to the axes of a 3-axis grid", "boundary_width": "4 width sets with lo,hi in 0..2 per dummy axis",
              "rules": "fill (symbolic value) / extend / periodic, mixed per axis", "supply": "apply_as_grid_ufunc, Grid.apply_as_grid_ufunc, as_grid_ufunc decorator (options at definition), type hints, definition + call-time override",
              "user function": "a recorder returning arrays of fresh symbols (an arbitrary function's output)", "other options": "pad_before_func=False, dask='parallelized' / map_overlap given at definition vs call"},
    "thorough": {"boundary_width": "9 width sets", "inputs": "extra dims in 3 layouts"},
}
OUTSIDE = ["signatures beyond the templates", "inputs lacking an axis named in boundary_width (excluded by the statement)", "ufuncs that do not trim"]
ASSUMPTIONS = ["data finite"]
AXES = {"X": {"center": "xc", "left": "xg"}, "Y": {"center": "yc", "left": "yg"}, "Z": {"center": "zc", "outer": "zo", "left": "zg"}}
NLEN = {"X": 2, "Y": 3, "Z": 2}

# templates: inputs / outputs as lists of args, each a list of (dummy, position)
TEMPLATES = {
    "T1": ([[("U", "center")]], [[("U", "left")]]),
    "T2": ([[("U", "center"), ("V", "left")]], [[("U", "left"), ("V", "center")]]),
    "T3": ([[("U", "center")], [("U", "left")]], [[("U", "center")]]),
    "T4": ([[("U", "center"), ("V", "center")], [("V", "center"), ("U", "center")]], [[("U", "left"), ("V", "left")], [("V", "left")]]),
    "T5": ([[("U", "left")], [("V", "center")], [("U", "center")]], [[]]),
    "T6": ([[("V", "center"), ("U", "left")]], [[("U", "center")], [("V", "left"), ("U", "left")]]),
    "T7": ([[("U", "center")], [("V", "left")]], [[("V", "center"), ("U", "center")]]),
}
WIDTHS = [{"U": (1, 0), "V": (0, 2)}, {"U": (0, 1)}, {"U": (2, 1), "V": (1, 1)}, {}, {"V": (2, 0)}, {"U": (0, 0), "V": (0, 1)},
          {"U": (1, 2), "V": (2, 2)}, {"U": (2, 0), "V": (0, 0)}, {"U": (1, 1)}]
RULES = {"fill-sym": ("fill", "fill"), "extend-fill": ("extend", "fill"), "periodic-extend": ("periodic", "extend")}
DUMMY_SETS = [("U", "V"), ("X", "Y"), ("Y", "Z"), ("Z", "X")]  # dummy names may coincide with real axis names under any binding
WAYS = ["apply", "grid-method", "decorator", "hints", "override", "override-scalar"]


def sig_str(tpl, names=None):
    ins, outs = TEMPLATES[tpl]
    nm = names or {"U": "U", "V": "V"}
    f = lambda args: ",".join("(" + ",".join("%s:%s" % (nm[n], p) for n, p in a) + ")" for a in args)  # noqa
    return f(ins) + "->" + f(outs)


def cases(tier):
    out = []
    for tpl in TEMPLATES:
        dummies = sorted({n for a in TEMPLATES[tpl][0] for n, _ in a})
        for real in itertools.permutations(["X", "Y", "Z"], len(dummies)):
            for wi in range(4 if tier == "quick" else len(WIDTHS)):
                w = WIDTHS[wi]
                if any(d not in dummies for d in w):
                    continue
                # every input must carry every axis that boundary_width names
                if any(any(d not in [n for n, _ in a] for d in w) for a in TEMPLATES[tpl][0]):
                    continue
                for rule in RULES:
                    out.append(dict(kind="rec", tpl=tpl, real=list(real), wi=wi, rule=rule, lay=0, dset=(wi + len(out)) % len(DUMMY_SETS)))
                    if tier == "thorough":
                        out.append(dict(kind="rec", tpl=tpl, real=list(real), wi=wi, rule=rule, lay=1))
    for tpl in ("T1", "T2", "T3"):
        for opt in ("pad_after", "dask", "map_overlap"):
            out.append(dict(kind="opts", tpl=tpl, opt=opt))
    for tpl in TEMPLATES:
        out.append(dict(kind="reject", tpl=tpl))
    for order in (0, 1):
        for what in ("boundary", "fill_value"):
            out.append(dict(kind="twogrids", order=order, what=what))
    # a call-time mapping overrides the bound one for that call only: the next call sees the definition again
    for what in ("fill_value", "boundary"):
        for middle in ("overriding-call", "rejected-overriding-call"):
            out.append(dict(kind="rebind", what=what, middle=middle))
    return out


def build_grid():
    import xgcm
    coords = {}
    for ax, m in AXES.items():
        for p, d in m.items():
            coords[d] = np.arange(NLEN[ax] + (1 if p == "outer" else 0)) * 1.0
    coords["t"] = [0, 1]
    coords["s"] = [0, 1, 2]
    ds = xr.Dataset(coords=coords)
    with warnings.catch_warnings():
        warnings.simplefilter("ignore")
        return xgcm.Grid(ds, coords=AXES, periodic=False, boundary="extend", autoparse_metadata=False), ds


def pos_ok(ax, p):
    return p in AXES[ax]


def fixpos(ax, p):
    """positions in the templates are from {center,left}; Z also has them"""
    return p


class Recorder:
    def __init__(self, W, ncore_in, out_core_shapes):
        self.W, self.ncore_in, self.out_core_shapes = W, ncore_in, out_core_shapes
        self.received = None
        self.calls = 0

    def __call__(self, *arrays):
        self.calls += 1
        self.received = [np.asarray(a) for a in arrays]
        loops = [a.shape[: a.ndim - nc] for a, nc in zip(self.received, self.ncore_in)]
        loop = np.broadcast_shapes(*loops)
        outs = [self.W.data("o%d" % j, tuple(loop) + tuple(cs)) for j, cs in enumerate(self.out_core_shapes)]
        self.outs = outs
        return tuple(outs) if len(outs) > 1 else outs[0]


def case(W, cfg):
    return {"rec": case_rec, "opts": case_opts, "reject": case_reject, "twogrids": case_twogrids, "rebind": case_rebind}[cfg["kind"]](W, cfg)


def case_rebind(W, cfg):
    """options bound at definition act as if passed at call time on every call, whatever was passed to earlier calls"""
    import xgcm
    from xgcm.grid_ufunc import as_grid_ufunc
    ds = xr.Dataset(coords={"xc": np.arange(2) + 0.5, "xg": np.arange(2) * 1.0, "yc": np.arange(3) + 0.5, "yg": np.arange(3) * 1.0})
    ax = {"X": {"center": "xc", "left": "xg"}, "Y": {"center": "yc", "left": "yg"}}
    with warnings.catch_warnings():
        warnings.simplefilter("ignore")
        g = xgcm.Grid(ds, coords=ax, periodic=False, boundary="extend", autoparse_metadata=False)
    f1, f2, g1, g2 = W.scalar("f1"), W.scalar("f2"), W.scalar("g1"), W.scalar("g2")
    bound_fill = {"X": f1, "Y": g1}
    bound_rule = {"X": "fill", "Y": "fill"}
    snap_fill, snap_rule = dict(bound_fill), dict(bound_rule)
    a = W.data("a", (3, 2))
    da = xr.DataArray(a, dims=["yc", "xc"])
    wrong = xr.DataArray(W.data("w", (3, 2)), dims=["yg", "xc"])
    rec = Recorder(W, [2], [(3, 2)])
    gu = as_grid_ufunc(signature="(V:center,U:center)->(V:left,U:left)", boundary_width={"U": (1, 0), "V": (0, 0)}, boundary=bound_rule, fill_value=bound_fill)(lambda *arrays: rec(*arrays))
    over = dict(fill_value={"X": f2, "Y": g2}) if cfg["what"] == "fill_value" else dict(boundary={"X": "extend", "Y": "periodic"})

    def expect(label, rule, fill):
        want = apply_along(a, 1, lambda v: spec_pad1d(v, 1, 0, rule, fill))
        got = rec.received[0]
        W.require("rebind-shape:" + label, tuple(got.shape) == tuple(want.shape), "%s vs %s" % (got.shape, want.shape))
        if tuple(got.shape) == tuple(want.shape):
            W.equal("rebind-received:%s:%s" % (cfg["what"], label), got, want)
    gu(g, da, axis=[("Y", "X")])
    expect("first-call", "fill", f1)
    rec.received = None
    if cfg["middle"] == "overriding-call":
        gu(g, da, axis=[("Y", "X")], **over)
        expect("overriding-call", "fill" if cfg["what"] == "fill_value" else "extend", f2 if cfg["what"] == "fill_value" else f1)
    else:
        try:
            gu(g, wrong, axis=[("Y", "X")], **over)
            W.require("rebind-wrong-position-rejected", False, "input on the wrong position accepted")
        except ValueError:
            W.require("rebind-wrong-position-rejected", True)
    rec.received = None
    gu(g, da, axis=[("Y", "X")])
    expect("call-after-" + cfg["middle"], "fill", f1)
    W.require("rebind-bound-mappings-unchanged", bound_fill == snap_fill and bound_rule == snap_rule, "mappings given to the decorator changed: %s %s" % (bound_fill, bound_rule))


def case_twogrids(W, cfg):
    """options bound at definition act as if passed at call time on *every* call: one decorated ufunc, whose
    bound mapping names only some axes, is used on two grids whose defaults for the other axis differ"""
    import xgcm
    from xgcm.grid_ufunc import as_grid_ufunc
    coords = {"xc": np.arange(2) + 0.5, "xg": np.arange(2) * 1.0, "yc": np.arange(3) + 0.5, "yg": np.arange(3) * 1.0}
    ds = xr.Dataset(coords=coords)
    ax = {"X": {"center": "xc", "left": "xg"}, "Y": {"center": "yc", "left": "yg"}}
    with warnings.catch_warnings():
        warnings.simplefilter("ignore")
        gA = xgcm.Grid(ds, coords=ax, periodic=False, boundary={"X": "extend", "Y": "periodic"}, fill_value={"X": 1.5, "Y": 2.5}, autoparse_metadata=False)
        gB = xgcm.Grid(ds, coords=ax, periodic=False, boundary={"X": "periodic", "Y": "fill"}, fill_value={"X": 3.5, "Y": 4.5}, autoparse_metadata=False)
    grids = [("A", gA, {"Y": ("periodic", 2.5)}), ("B", gB, {"Y": ("fill", 4.5)})]
    if cfg["order"]:
        grids = grids[::-1]
    fv = W.scalar("fv")
    if cfg["what"] == "boundary":
        bound = dict(boundary={"X": "fill"}, fill_value={"X": fv, "Y": fv})
    else:
        bound = dict(boundary="fill", fill_value={"X": fv})
    a = W.data("a", (3, 2))
    da = xr.DataArray(a, dims=["yc", "xc"])
    rec = Recorder(W, [2], [(3, 2)])
    gu = as_grid_ufunc(signature="(V:center,U:center)->(V:left,U:left)", boundary_width={"U": (1, 0), "V": (1, 1)}, **bound)(lambda *arrays: rec(*arrays))
    for name, g, ydef in grids:
        rec.received = None
        gu(g, da, axis=[("Y", "X")])
        if cfg["what"] == "boundary":
            yrule, yfill = ydef["Y"][0], fv
        else:
            yrule, yfill = "fill", {"A": 2.5, "B": 4.5}[name]
        want = apply_along(a, 1, lambda v: spec_pad1d(v, 1, 0, "fill", fv))
        want = apply_along(want, 0, lambda v: spec_pad1d(v, 1, 1, yrule, yfill))
        got = rec.received[0]
        W.require("twogrids-shape:%s" % name, tuple(got.shape) == tuple(want.shape), "%s vs %s" % (got.shape, want.shape))
        if tuple(got.shape) == tuple(want.shape):
            # corner cells depend on the (unspecified) order in which the axes are padded: compare the rest
            mask = np.ones(want.shape, dtype=bool)
            mask[0, 0] = mask[-1, 0] = False
            W.equal("twogrids-received:%s:grid%s" % (cfg["what"], name), got[mask], want[mask])


def make_inputs(W, grid, ds, tpl, bind, lay):
    ins, outs = TEMPLATES[tpl]
    args, axis = [], []
    extra_by_input = [["t"], ["s", "t"], []] if lay == 0 else [["s"], [], ["t", "s"]]
    for k, a in enumerate(ins):
        core = [AXES[bind[n]][p] for n, p in a]
        extra = extra_by_input[k % 3]
        # core dims deliberately not last
        dims = core[:1] + extra + core[1:]
        arr = W.data("in%d" % k, [ds.sizes[d] for d in dims])
        args.append(xr.DataArray(arr, dims=dims))
        axis.append(tuple(bind[n] for n, _ in a))
    return args, axis


def case_rec(W, cfg):
    from xgcm.grid_ufunc import apply_as_grid_ufunc, as_grid_ufunc
    tpl = cfg["tpl"]
    ins, outs = TEMPLATES[tpl]
    dummies = sorted({n for a in ins for n, _ in a}, key=lambda n: [m for a in ins for m, _ in a].index(n))
    bind = dict(zip(dummies, cfg["real"]))
    for a in ins + outs:
        for n, p in a:
            if p not in AXES[bind[n]]:
                return  # this binding has no such position (e.g. 'left' exists on all; kept for safety)
    grid, ds = build_grid()
    widths = WIDTHS[cfg["wi"]]
    r_u, r_v = RULES[cfg["rule"]]
    fv = W.scalar("fv")
    rule_by_dummy = {"U": r_u, "V": r_v}
    boundary = {bind[d]: rule_by_dummy[d] for d in dummies}
    fill = {bind[d]: fv for d in dummies if rule_by_dummy[d] == "fill"}
    args, axis = make_inputs(W, grid, ds, tpl, bind, cfg["lay"])
    dn = dict(zip(("U", "V"), DUMMY_SETS[cfg.get("dset", 0)]))
    sig = sig_str(tpl, dn)
    widths_named = {dn[d]: w for d, w in widths.items()}
    ncore_in = [len(a) for a in ins]
    out_core_shapes = [tuple(ds.sizes[AXES[bind[n]][p]] for n, p in a) for a in outs]
    # expected loop dims: all non-core dims in order of first appearance over the inputs
    loop_dims = []
    for da, a in zip(args, ins):
        core = [AXES[bind[n]][p] for n, p in a]
        for d in da.dims:
            if d not in core and d not in loop_dims:
                loop_dims.append(d)

    def expected_received(k, all_fill=False):
        da, a = args[k], ins[k]
        core = [AXES[bind[n]][p] for n, p in a]
        mine = [d for d in loop_dims if d in da.dims]
        arr = da.transpose(*mine, *core).data
        for j, (n, p) in enumerate(a):
            lo, hi = widths.get(n, (0, 0))
            if (lo, hi) == (0, 0):
                continue
            ax_i = len(mine) + j
            arr = apply_along(arr, ax_i, lambda v, n=n, lo=lo, hi=hi: spec_pad1d(v, lo, hi, "fill" if all_fill else rule_by_dummy[n], fv))
        # xarray inserts length-1 axes for loop dims this input lacks
        shape = [ds.sizes[d] if d in mine else 1 for d in loop_dims] + list(arr.shape[len(mine):])
        return arr.reshape(shape)

    for way in WAYS:
        rec = Recorder(W, ncore_in, out_core_shapes)
        kw = dict(boundary_width=dict(widths_named) if widths_named else None, boundary=dict(boundary), fill_value=dict(fill) if fill else None)
        lab = "%s:%s" % (tpl, way)
        try:
            if way == "apply":
                res = apply_as_grid_ufunc(rec, *args, axis=axis, grid=grid, signature=sig, **kw)
            elif way == "grid-method":
                res = grid.apply_as_grid_ufunc(rec, *args, axis=axis, signature=sig, **kw)
            elif way == "decorator":
                gu = as_grid_ufunc(signature=sig, **kw)(lambda *arrays: rec(*arrays))
                res = gu(grid, *args, axis=axis)
            elif way == "override":
                # definition-time options are overridden by call-time values
                gu = as_grid_ufunc(signature=sig, boundary_width=kw["boundary_width"], boundary="periodic", fill_value=7.25)(lambda *arrays: rec(*arrays))
                res = gu(grid, *args, axis=axis, boundary=dict(boundary), fill_value=dict(fill) if fill else None)
            elif way == "override-scalar":
                # a scalar call-time fill value (any value, zero included) overrides the one bound at definition
                if not all(r == "fill" for r in rule_by_dummy.values() if True) and False:
                    continue
                gu = as_grid_ufunc(signature=sig, boundary_width=kw["boundary_width"], boundary="extend", fill_value=7.25)(lambda *arrays: rec(*arrays))
                res = gu(grid, *args, axis=axis, boundary="fill", fill_value=fv)
            else:  # type hints
                def fn(*arrays):
                    return rec(*arrays)
                params = ["a%d" % i for i in range(len(ins))]
                src = "def hinted(%s):\n    return rec(%s)\n" % (", ".join(params), ", ".join(params))
                ns = {"rec": rec}
                exec(src, ns)
                hinted = ns["hinted"]
                ann = {}
                for pn, a in zip(params, ins):
                    ann[pn] = Annotated[np.ndarray, ",".join("%s:%s" % (dn[n], p) for n, p in a)]
                outs_ann = [Annotated[np.ndarray, ",".join("%s:%s" % (dn[n], p) for n, p in a)] for a in outs]
                if len(outs) == 1 and not outs[0]:
                    pass  # no return annotation: output without core dims
                elif len(outs_ann) == 1:
                    ann["return"] = outs_ann[0]
                else:
                    ann["return"] = Tuple[tuple(outs_ann)]
                hinted.__annotations__ = ann
                gu = as_grid_ufunc(**kw)(hinted)
                res = gu(grid, *args, axis=axis)
        except Exception as e:  # noqa
            W.fail("raises:%s:%s" % (way, type(e).__name__), "%s %s: %s: %s" % (lab, sig, type(e).__name__, str(e)[:200]))
            continue
        W.require("called-once:" + way, rec.calls == 1, "%d calls" % rec.calls)
        if rec.received is None:
            continue
        for k in range(len(ins)):
            want = expected_received(k, all_fill=(way == "override-scalar"))
            got = rec.received[k]
            # the statement fixes the trailing (signature) axes only: unit-length placeholders for loop
            # dimensions an input lacks may or may not be present
            nl = len(loop_dims)
            sq = lambda x, ncore: x.reshape([n_ for n_ in x.shape[: x.ndim - ncore] if n_ != 1] + list(x.shape[x.ndim - ncore:]))  # noqa
            got, want = sq(got, len(ins[k])), sq(want, len(ins[k]))
            W.require("received-shape:" + way, tuple(got.shape) == tuple(want.shape),
                      "%s input %d: received shape %s, want %s (core dims last in signature order, each extended by its boundary_width)" % (lab, k, got.shape, want.shape))
            if tuple(got.shape) == tuple(want.shape):
                W.equal("received-values:%s:in%d" % (way, k), got, want, detail=lab)
        results = tuple(res) if isinstance(res, (tuple, list)) else (res,)
        W.require("n-outputs:" + way, len(results) == len(outs), "%d results for %d outputs" % (len(results), len(outs)))
        for j, (r, a) in enumerate(zip(results, outs)):
            want_dims = tuple(loop_dims) + tuple(AXES[bind[n]][p] for n, p in a)
            W.require("output-dims:" + way, isinstance(r, xr.DataArray) and tuple(r.dims) == want_dims, "%s output %d dims %s want %s" % (lab, j, getattr(r, "dims", None), want_dims))
            if isinstance(r, xr.DataArray) and tuple(r.dims) == want_dims:
                W.equal("output-values:%s:out%d" % (way, j), r.data, rec.outs[j], detail=lab)


def trimmed(a):
    return a[..., 1:] - a[..., :-1]


def case_opts(W, cfg):
    """options bound at definition act as if passed at call time (pad_before_func, dask, map_overlap)"""
    from xgcm.grid_ufunc import apply_as_grid_ufunc, as_grid_ufunc
    import dask.array as dsa
    grid, ds = build_grid()
    # dask.array.pad insists on a numeric pad value: the fill value is symbolic only in the eager variant
    fv = W.scalar("fv") if cfg["opt"] == "pad_after" else 1.75
    a = W.data("a", (3, NLEN["X"]))
    da = xr.DataArray(a, dims=["s", "xc"])
    sig = "(U:center)->(U:left)"
    base = dict(boundary_width={"U": (1, 0)}, boundary="fill", fill_value=fv)
    opt = cfg["opt"]
    if opt == "pad_after":
        extra = dict(pad_before_func=False)
        fn = lambda x: np.cumsum(x, axis=-1)[..., :-1]  # noqa
        want = apply_along(a, 1, lambda v: [fv] + [sum(v[: k + 1][1:], v[0]) for k in range(len(v) - 1)])
    elif opt == "dask":
        extra = dict(dask="parallelized")
        da = xr.DataArray(dsa.from_array(a, chunks=(1, NLEN["X"])), dims=["s", "xc"])
        fn = trimmed
        want = apply_along(a, 1, lambda v: [v[0] - fv] + [v[i] - v[i - 1] for i in range(1, len(v))])
    else:
        extra = dict(dask="allowed", map_overlap=True)
        da = xr.DataArray(dsa.from_array(a, chunks=(3, 1)), dims=["s", "xc"])
        fn = trimmed
        want = apply_along(a, 1, lambda v: [v[0] - fv] + [v[i] - v[i - 1] for i in range(1, len(v))])
    r_call = apply_as_grid_ufunc(fn, da, axis=[("X",)], grid=grid, signature=sig, **base, **extra)
    gu_def = as_grid_ufunc(signature=sig, **base, **extra)(fn)
    r_def = gu_def(grid, da, axis=[("X",)])
    gu_part = as_grid_ufunc(signature=sig, **base)(fn)
    r_mixed = gu_part(grid, da, axis=[("X",)], **extra)
    # the Grid method is the same call; and a call-time value overrides the one bound at definition
    r_method = grid.apply_as_grid_ufunc(fn, da, axis=[("X",)], signature=sig, **base, **extra)
    opposite = dict(pad_before_func=True) if opt == "pad_after" else (dict(dask="forbidden") if opt == "dask" else dict(dask="forbidden", map_overlap=False))
    gu_opp = as_grid_ufunc(signature=sig, **base, **opposite)(fn)
    r_over = gu_opp(grid, da, axis=[("X",)], **extra)
    for nm, r in (("call", r_call), ("definition", r_def), ("definition+call", r_mixed), ("grid-method", r_method), ("call-overrides-definition", r_over)):
        if opt != "pad_after":
            W.require("opts-lazy:%s:%s" % (opt, nm), hasattr(r.data, "dask"), "result not lazy")
            r = r.compute(scheduler="synchronous")
        W.require("opts-dims:%s:%s" % (opt, nm), tuple(r.dims) == ("s", "xg"), str(r.dims))
        W.equal("opts-value:%s:%s" % (opt, nm), r.data, want)


def case_reject(W, cfg):
    """inputs not located on the positions the signature names are rejected"""
    from xgcm.grid_ufunc import apply_as_grid_ufunc
    tpl = cfg["tpl"]
    ins, outs = TEMPLATES[tpl]
    dummies = sorted({n for a in ins for n, _ in a}, key=lambda n: [m for a in ins for m, _ in a].index(n))
    grid, ds = build_grid()
    for real in itertools.permutations(["X", "Y", "Z"], len(dummies)):
        bind = dict(zip(dummies, real))
        args, axis = make_inputs(W, grid, ds, tpl, bind, 0)
        out_core_shapes = [tuple(ds.sizes[AXES[bind[n]][p]] for n, p in a) for a in outs]
        for k, a in enumerate(ins):
            for j, (n, p) in enumerate(a):
                other = [q for q in AXES[bind[n]] if q != p][0]
                bad = list(args)
                bad[k] = args[k].rename({AXES[bind[n]][p]: AXES[bind[n]][other]}) if ds.sizes[AXES[bind[n]][p]] == ds.sizes[AXES[bind[n]][other]] else \
                    xr.DataArray(W.data("w", [ds.sizes[AXES[bind[n]][other]] if d == AXES[bind[n]][p] else ds.sizes[d] for d in args[k].dims]),
                                 dims=[AXES[bind[n]][other] if d == AXES[bind[n]][p] else d for d in args[k].dims])
                rec = Recorder(W, [len(x) for x in ins], out_core_shapes)
                try:
                    apply_as_grid_ufunc(rec, *bad, axis=axis, grid=grid, signature=sig_str(tpl))
                    W.require("wrong-position-rejected", False, "%s bind %s: input %d moved to %s:%s was accepted" % (tpl, bind, k, bind[n], other))
                except ValueError:
                    W.require("wrong-position-rejected", True)
                except Exception as e:  # noqa
                    W.require("wrong-position-rejected", False, "%s: raised %s instead of ValueError: %s" % (tpl, type(e).__name__, str(e)[:100]))
        # wrong number of inputs / of axis entries / of axes inside an entry
        variants = []
        if len(args) > 1:
            variants.append(("one input and its axis entry fewer", args[:-1], axis[:-1]))
            variants.append(("one input fewer, axis entries as in the signature", args[:-1], axis))
        variants.append(("one input and axis entry more", list(args) + [args[-1]], list(axis) + [axis[-1]]))
        variants.append(("one input more, axis entries as in the signature", list(args) + [args[-1]], axis))
        variants.append(("last axis entry names one axis fewer", args, list(axis[:-1]) + [tuple(axis[-1])[:-1]]))
        spare = [r for r in ("X", "Y", "Z") if r not in axis[-1]]
        if spare:
            variants.append(("last axis entry names one axis more", args, list(axis[:-1]) + [tuple(axis[-1]) + (spare[0],)]))
        for what, bargs, baxis in variants:
            for way in ("function", "method"):
                rec = Recorder(W, [len(x) for x in ins], out_core_shapes)
                try:
                    if way == "function":
                        apply_as_grid_ufunc(rec, *bargs, axis=baxis, grid=grid, signature=sig_str(tpl))
                    else:
                        grid.apply_as_grid_ufunc(rec, *bargs, axis=baxis, signature=sig_str(tpl))
                    W.require("wrong-arity-rejected", False, "%s (%s): accepted for %s" % (what, way, sig_str(tpl)))
                except (ValueError, TypeError):
                    W.require("wrong-arity-rejected", True)
                except Exception as e:  # noqa
                    W.require("wrong-arity-rejected", False, "%s (%s): %s instead of ValueError/TypeError for %s: %s" % (what, way, type(e).__name__, sig_str(tpl), str(e)[:100]))


def finding_key(cfg, v):
    if cfg.get("kind") == "rec" and v["label"].startswith("received-values:decorator") or v["label"].startswith("received-values:hints"):
        return "definition-time-fill_value-ignored"
    if cfg.get("kind") == "opts" and ("definition" in v["label"]) and v["label"].startswith("opts-value"):
        return "definition-time-fill_value-ignored"
    return v["label"]


if __name__ == "__main__":
    sys.exit(harness.main(sys.modules[__name__]))
