"""C18 Operations never modify their arguments; results are history-independent."""
import copy
import itertools
import sys
import warnings

import numpy as np
import xarray as xr

from lib import harness
from sx.core import SReal

ID = "C18"
FUNCTIONS = ["xgcm.padding:_pad_face_connections", "xgcm.padding:pad", "xgcm.padding:_pad_basic", "xgcm.grid:Grid.__init__",
             "xgcm.grid:Grid._map_kwargs_over_axes", "xgcm.grid:Grid._1d_grid_ufunc_dispatch", "xgcm.grid:Grid.cumsum",
             "xgcm.grid:Grid._apply_vector_function", "xgcm.grid_ufunc:apply_as_grid_ufunc", "xgcm.transform:transform", "xgcm.grid:Grid.set_metrics"]
BOUNDS = {
    "quick": {"sequences": "every operation of 32 families twice on the same argument objects, and every ordered pair of operations on the same Grid and objects, each compared with the operation run first on fresh objects; constructor with every mapping-valued argument",
              "grids": "simple 2-axis grid with metrics; 2-face grid with an axis-swapping link (vector operations); outer-position grid (transform)", "data": "symbolic"},
    "thorough": {"sequences": "+ every ordered triple over 8 representative families"},
}
OUTSIDE = ["sequences longer than 3", "mutation of objects reachable only through private attributes of xarray objects"]
ASSUMPTIONS = ["data finite; the solver's share is small here: mutation is configuration-dependent, z3 only decides equality of the result terms"]
N = 2


class Objs:
    """all argument objects of one world (fresh for every instantiation, same symbols)"""

    def __init__(self, W):
        import xgcm
        mk = W.data
        self.ds = xr.Dataset(coords={"xc": np.arange(N) + 0.5, "xg": np.arange(N) * 1.0, "yc": np.arange(N) + 0.5, "yg": np.arange(N) * 1.0,
                                     "zc": np.arange(3) + 0.5, "zo": np.arange(4) * 1.0, "face": [0, 1], "t": [0, 1]})
        self.ds["xc"].attrs["units"] = "m"
        self.ds["dx"] = (("xc",), posdata(W, "dx", (N,)))
        self.ds["dxg"] = (("xg",), posdata(W, "dxg", (N,)))
        self.ds["dy"] = (("yc", "xc"), posdata(W, "dy", (N, N)))
        self.coords = {"X": {"center": "xc", "left": "xg"}, "Y": {"center": "yc", "left": "yg"}, "Z": {"center": "zc", "outer": "zo"}}
        self.boundary_ctor = {"X": "extend", "Y": None, "Z": "fill"}
        self.fill_ctor = {"X": 1.5}
        self.metrics = {("X",): ["dx", "dxg"], ("Y",): ["dy"]}
        self.table = {"face": {0: {"X": (None, (1, "Y", False))}, 1: {"Y": ((0, "X", False), None)}}}
        self.shifts = {"X": {"center": "left"}}
        with warnings.catch_warnings():
            warnings.simplefilter("ignore")
            self.grid = xgcm.Grid(self.ds, coords=self.coords, periodic=False, boundary=self.boundary_ctor, fill_value=self.fill_ctor,
                                  metrics=self.metrics, default_shifts=self.shifts, autoparse_metadata=False)
            self.fgrid = xgcm.Grid(self.ds, coords={"X": self.coords["X"], "Y": self.coords["Y"]}, periodic=False, boundary="fill", fill_value=0.0,
                                   face_connections=self.table, autoparse_metadata=False)
        self.a = xr.DataArray(mk("a", (2, N, N)), dims=["t", "yc", "xc"], name="tracer", attrs={"long_name": "tracer"},
                              coords={"xc": self.ds.xc, "lab": ("t", ["p", "q"])})
        self.fa = xr.DataArray(mk("fa", (2, N, N)), dims=["face", "yc", "xc"], name="ftracer")
        self.u = xr.DataArray(mk("u", (2, N, N)), dims=["face", "yc", "xg"], name="u")
        self.v = xr.DataArray(mk("v", (2, N, N)), dims=["face", "yg", "xc"], name="v")
        self.vec = {"X": self.u}
        self.other = {"Y": self.v}
        self.vec2 = {"X": self.u, "Y": self.v}
        self.bdict = {"X": "fill", "Y": "extend"}
        self.fdict = {"X": mk("fvx", ())[()] if False else W.scalar("fvx")}
        self.todict = {"X": "left", "Y": "left"}
        self.mwdict = {"X": ("X",), "Y": None}
        self.todict_d = {"X": "left", "Y": None}  # None = "the axis' default shift": resolved per call, never stored
        self.widths = {"X": (1, 0), "Y": (0, 1)}
        self.phi = xr.DataArray(mk("phi", (2, 3)), dims=["t", "zc"], name="phi")
        self.theta = xr.DataArray(np.array([[1.0, 2.0, 4.0], [5.0, 3.5, 1.5]]), dims=["t", "zc"])  # anonymous on purpose
        self.theta_o = xr.DataArray(np.array([[0.5, 1.5, 3.0, 4.5], [4.0, 2.0, 2.0, 1.0]]), dims=["t", "zo"], name="theta")
        self.wo = xr.DataArray(mk("wo", (2, 4)), dims=["t", "zo"], name="w")
        self.ayg = xr.DataArray(mk("ayg", (2, N, N)), dims=["t", "yg", "xc"], name="ayg")
        self.agg = xr.DataArray(mk("agg", (2, N, N)), dims=["t", "yg", "xg"], name="agg")
        self.levels = np.array([1.5, 3.0])
        self.bins = np.array([0.5, 2.0, 4.5])
        self.tracked = ["ds", "coords", "boundary_ctor", "fill_ctor", "metrics", "table", "shifts", "a", "fa", "u", "v", "vec", "other", "vec2", "bdict", "fdict",
                        "todict", "todict_d", "mwdict", "widths", "phi", "theta", "theta_o", "levels", "bins", "wo", "ayg", "agg"]


def posdata(W, name, shape):
    a = W.data(name, shape, gen=lambda r: r.randint(2, 20) / 4.0)
    if W.sym:
        for x in a.ravel():
            W.assume(x.t > 0)
    return a


def snap(x, depth=0):
    """deep, comparable snapshot (terms are compared by identity of the z3 ast / float value)"""
    if isinstance(x, xr.DataArray):
        return ("DA", x.name, tuple(x.dims), tuple(x.shape), snap(dict(x.attrs)), tuple(sorted((k, tuple(v.dims), snap(v.values)) for k, v in x.coords.items())), snap(x.data))
    if isinstance(x, xr.Dataset):
        return ("DS", tuple(sorted((k, tuple(v.dims), snap(dict(v.attrs)), snap(v.values)) for k, v in x.variables.items())), snap(dict(x.attrs)))
    if isinstance(x, np.ndarray):
        return ("ND", tuple(x.shape), str(x.dtype), tuple(snap(v) for v in x.ravel()))
    if isinstance(x, dict):
        return ("D", tuple((snap(k), snap(v)) for k, v in x.items()))
    if isinstance(x, (list, tuple)):
        return (type(x).__name__, tuple(snap(v) for v in x))
    if isinstance(x, SReal):
        return ("S", x.t.get_id())
    if hasattr(x, "dask"):
        return ("dask", str(x.shape))
    if isinstance(x, float) and x != x:
        return "nan"
    return x


def grid_state(g):
    return ({k: (a.boundary, a.fill_value, dict(a.coords), dict(a._default_shifts), a._periodic) for k, a in g.axes.items()},
            {tuple(sorted(k)): [m.name for m in v] for k, v in g._metrics.items()}, snap(g._face_connections))


def ident(o):
    """identity of the objects inside containers (a dict must keep holding the same objects)"""
    out = {}
    for name in o.tracked:
        x = getattr(o, name)
        if isinstance(x, dict):
            out[name] = tuple((k, id(v)) for k, v in x.items())
    return out


OPS = {
    "diff-kwdicts": lambda o: o.grid.diff(o.a, ["X", "Y"], to=o.todict, boundary=o.bdict, fill_value=o.fdict),
    "interp-metric_weighted": lambda o: o.grid.interp(o.a, ["X", "Y"], metric_weighted=o.mwdict, boundary=o.bdict),
    "min": lambda o: o.grid.min(o.a, "X"),
    "diff-to-mapping-with-default-entry": lambda o: o.grid.diff(o.a, ["X", "Y"], to=o.todict_d),
    "interp-to-mapping-with-default-entry-other-position": lambda o: o.grid.interp(o.ayg, ["X", "Y"], to=o.todict_d),
    "cumsum-to-mapping-with-default-entry": lambda o: o.grid.cumsum(o.a, ["X", "Y"], to=o.todict_d, boundary="fill", fill_value=0.0),
    "diff-unpadded-outer-to-center": lambda o: o.grid.diff(o.wo, "Z", to="center"),
    "interp-unpadded-outer-to-center": lambda o: o.grid.interp(o.wo, "Z", to="center"),
    "min-unpadded-center-to-outer-and-back": lambda o: o.grid.min(o.grid.max(o.phi, "Z", to="outer", boundary="extend"), "Z", to="center"),
    "cumsum-unpadded": lambda o: o.grid.cumsum(o.wo, "Z", to="center"),
    "interp_like": lambda o: o.grid.interp_like(o.a, xr.DataArray(np.zeros((N, N)), dims=["yg", "xg"]), boundary=o.bdict, fill_value=o.fdict),
    "get_metric": lambda o: o.grid.get_metric(o.a, ("X", "Y")),
    "vector-diff-2d": lambda o: o.fgrid.diff_2d_vector(o.vec2, boundary="fill")["X"],
    "integrate-metric-must-be-interpolated": lambda o: o.grid.integrate(o.ayg, "Y"),
    "average-metric-must-be-interpolated-elsewhere": lambda o: o.grid.average(o.agg, "Y"),
    "cumsum": lambda o: o.grid.cumsum(o.a, "Y", to="left", boundary=o.bdict, fill_value=o.fdict),
    "integrate": lambda o: o.grid.integrate(o.a, ["X", "Y"]),
    "average": lambda o: o.grid.average(o.a, "X"),
    "derivative": lambda o: o.grid.derivative(o.a, "X", boundary=o.bdict),
    "cumint": lambda o: o.grid.cumint(o.a, "X", boundary="fill", fill_value=0.0),
    "ufunc": lambda o: o.grid.apply_as_grid_ufunc(lambda x: x[..., 1:] - x[..., :-1], o.a, axis=[("X",)], signature="(X:center)->(X:left)",
                                                  boundary_width={"X": (1, 0)}, boundary=o.bdict, fill_value=o.fdict),
    "pad-scalar-faces": lambda o: __import__("xgcm.padding", fromlist=["pad"]).pad(o.fa, o.fgrid, boundary_width=o.widths, boundary=o.bdict, fill_value=o.fdict),
    "vector-diff": lambda o: o.fgrid.diff(o.vec, "X", to="center", other_component=o.other),
    "vector-interp-2d": lambda o: o.fgrid.interp_2d_vector(o.vec2, boundary="fill")["Y"],
    "vector-pad": lambda o: __import__("xgcm.padding", fromlist=["pad"]).pad(o.vec, o.fgrid, boundary_width=o.widths, boundary="fill", other_component=o.other),
    "transform-linear-anonymous-target": lambda o: o.grid.transform(o.phi, "Z", o.levels, target_data=o.theta, method="linear"),
    "transform-conservative": lambda o: o.grid.transform(o.phi, "Z", o.bins, target_data=o.theta_o, method="conservative"),
    "set_metrics-refused": lambda o: o.grid.set_metrics(("X",), "dx"),
    "set_metrics-unknown-variable-for-a-new-axis-set": lambda o: o.grid.set_metrics(("X", "Y"), "no_such_variable"),
    "set_metrics-unknown-variable-for-an-existing-axis-set": lambda o: o.grid.set_metrics(("Y",), "no_such_variable", overwrite=True),
    "integrate-over-a-product-of-metrics": lambda o: o.grid.integrate(o.a, ["Y", "X"]),
    "diff-wrong-axis": lambda o: o.grid.diff(o.a, "Q", boundary=o.bdict),
}
REPRESENTATIVE = ["diff-kwdicts", "cumsum", "integrate", "ufunc", "vector-diff", "vector-interp-2d", "transform-linear-anonymous-target", "diff-wrong-axis"]


def cases(tier):
    out = [dict(kind="ctor")]
    names = list(OPS)
    for a in names:
        out.append(dict(kind="seq", ops=[a, a]))
    for a, b in itertools.permutations(names, 2):
        out.append(dict(kind="seq", ops=[a, b]))
    if tier == "thorough":
        for tr in itertools.product(REPRESENTATIVE, repeat=3):
            out.append(dict(kind="seq", ops=list(tr)))
    return out


def run_op(name, o):
    try:
        with warnings.catch_warnings():
            warnings.simplefilter("ignore")
            r = OPS[name](o)
        if isinstance(r, xr.DataArray) and hasattr(r.data, "dask"):
            r = r.compute(scheduler="synchronous")
        return r
    except Exception as e:  # noqa
        return "raises %s" % type(e).__name__


def case(W, cfg):
    if cfg["kind"] == "ctor":
        return case_ctor(W)
    seq = cfg["ops"]
    fresh = {}
    for name in dict.fromkeys(seq):
        fresh[name] = run_op(name, Objs(W))
    o = Objs(W)
    before = {n: snap(getattr(o, n)) for n in o.tracked}
    ids = ident(o)
    gs = (grid_state(o.grid), grid_state(o.fgrid))
    for i, name in enumerate(seq):
        r = run_op(name, o)
        lab = "%s(after %s)" % (name, "+".join(seq[:i]) or "nothing")
        for n in o.tracked:
            W.require("argument-unchanged:" + name, snap(getattr(o, n)) == before[n], "%s: object '%s' was modified by %s" % (lab, n, name))
        W.require("argument-containers-hold-same-objects:" + name, ident(o) == ids, "%s: a dictionary no longer holds the same objects" % lab)
        W.require("grid-settings-unchanged:" + name, (grid_state(o.grid), grid_state(o.fgrid)) == gs, "%s: Grid settings changed" % lab)
        # blame each operation only for what it changes itself
        before = {n: snap(getattr(o, n)) for n in o.tracked}
        ids = ident(o)
        gs = (grid_state(o.grid), grid_state(o.fgrid))
        f = fresh[name]
        if isinstance(f, str) or isinstance(r, str):
            W.require("same-outcome-as-first-on-fresh-objects:" + name, isinstance(f, str) and isinstance(r, str) and f == r,
                      "%s: %s, on fresh objects: %s" % (lab, r if isinstance(r, str) else "returns", f if isinstance(f, str) else "returns"))
        elif isinstance(f, xr.DataArray):
            W.require("same-dims-as-first-on-fresh-objects:" + name, tuple(r.dims) == tuple(f.dims) and r.name == f.name, "%s: %s/%s vs %s/%s" % (lab, r.dims, r.name, f.dims, f.name))
            if tuple(r.dims) == tuple(f.dims):
                W.equal("same-result-as-first-on-fresh-objects:" + name, r.data, f.data, detail=lab, record=(i == 0))


def case_ctor(W):
    import xgcm
    o = Objs(W)
    args = dict(coords=o.coords, boundary=o.boundary_ctor, fill_value=o.fill_ctor, metrics=o.metrics, default_shifts=o.shifts)
    for variant in ("simple", "faces", "periodic-list", "raises"):
        before = {k: snap(v) for k, v in args.items()}
        bds, btab = snap(o.ds), snap(o.table)
        plist = ["X"]
        kw = dict(args)
        try:
            with warnings.catch_warnings():
                warnings.simplefilter("ignore")
                if variant == "simple":
                    xgcm.Grid(o.ds, periodic=False, autoparse_metadata=False, **kw)
                elif variant == "faces":
                    kw["coords"] = {"X": o.coords["X"], "Y": o.coords["Y"]}
                    kw["metrics"] = None
                    kw["boundary"] = {"X": "fill", "Y": None}
                    b2 = snap(kw["boundary"])
                    xgcm.Grid(o.ds, periodic=False, face_connections=o.table, autoparse_metadata=False, **kw)
                    W.require("ctor-argument-unchanged:boundary", snap(kw["boundary"]) == b2, "constructor rewrote the boundary mapping: %s" % kw["boundary"])
                elif variant == "periodic-list":
                    xgcm.Grid(o.ds, periodic=plist, autoparse_metadata=False, **kw)
                else:
                    kw["metrics"] = {("Q",): ["dx"]}
                    xgcm.Grid(o.ds, periodic=False, autoparse_metadata=False, **kw)
        except Exception:
            pass
        for k, v in args.items():
            W.require("ctor-argument-unchanged:" + k, snap(v) == before[k], "%s: constructor modified its '%s' argument: %s" % (variant, k, v))
        W.require("ctor-argument-unchanged:ds", snap(o.ds) == bds and snap(o.table) == btab and plist == ["X"], "%s: dataset / face table / periodic list modified" % variant)


def finding_key(cfg, v):
    d = v.get("detail_float", "")
    if "vector" in v["label"] and ("'vec'" in d or "'other'" in d or "'vec2'" in d or "raises" in d):
        return "popitem-empties-vector-dicts"
    if "transform-linear-anonymous-target" in v["label"] and "'theta'" in d:
        return "transform-names-anonymous-target_data-in-place"
    return v["label"]


if __name__ == "__main__":
    sys.exit(harness.main(sys.modules[__name__]))
