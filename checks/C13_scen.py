"""Call sequences of C13, parameterised by the names of everything that is only a label.
run(scen, nm, mk) -> list of (tag, value); tags never contain a name; dims are reported by role."""
import warnings

import numpy as np
import xarray as xr

BASE = {
    "AX1": "X", "AX2": "Y", "AX3": "Z",
    "D1C": "xc", "D1L": "xg", "D1O": "xo", "D2C": "yc", "D2L": "yg", "D3C": "zc", "D3O": "zo",
    "T": "time", "FACE": "face",
    "M1": "dx", "M1L": "dxg", "M2": "dy", "A12": "area", "M3": "dz",
    "DATA": "tracer", "DATA2": "vcomp",
    "U1": "U", "U2": "V",
    "TGT": "rho", "TDIM": "rholev",
}
# namespaces inside which names must stay distinct
NAMESPACES = [["AX1", "AX2", "AX3"], ["D1C", "D1L", "D1O", "D2C", "D2L", "D3C", "D3O", "T", "FACE", "M1", "M1L", "M2", "A12", "M3", "DATA", "DATA2", "TGT", "TDIM"], ["U1", "U2"]]
ROLES_BY_SCEN = {
    "ops": ["AX1", "AX2", "D1C", "D1L", "D1O", "D2C", "D2L", "T", "M1", "M1L", "M2", "A12", "DATA"],
    "faces": ["AX1", "AX2", "D1C", "D1L", "D2C", "D2L", "FACE", "T", "DATA", "DATA2"],
    "ufunc": ["AX1", "AX2", "D1C", "D1L", "D2C", "D2L", "T", "U1", "U2", "DATA"],
    "comodo": ["AX1", "AX2", "D1C", "D1L", "D1O", "D2C", "D2L", "T", "DATA"],
    "sgrid": ["D1C", "D1O", "D2C", "D2L", "D3C", "D3O", "T", "DATA"],
    "transform": ["AX3", "D3C", "D3O", "T", "DATA", "TGT", "TDIM", "D1C"],
}
N = 2


def flat(a):
    return list(np.asarray(a, dtype=object).ravel())


def inv_dims(nm):
    """name -> role for the dataset namespace (dimensions and variables) only"""
    return {nm[r]: r for r in NAMESPACES[1]}


def roles_of(nm, dims):
    inv = inv_dims(nm)
    return [inv.get(d, "?" + str(d)) for d in dims]


class Out(list):
    def add(self, tag, fn, nm, dims_order=None):
        """run fn(); record values (transposed to role order) or the exception type"""
        try:
            with warnings.catch_warnings():
                warnings.simplefilter("ignore")
                r = fn()
        except Exception as e:  # noqa
            self.append((tag + ":outcome", "raises " + type(e).__name__))
            self.last = None
            return None
        self.append((tag + ":outcome", "ok"))
        self.last = r
        if isinstance(r, xr.DataArray):
            if hasattr(r.data, "dask"):
                r = r.compute(scheduler="synchronous")
            roles = roles_of(nm, r.dims)
            self.append((tag + ":dims", roles))
            order = sorted(range(len(roles)), key=lambda i: roles[i])
            self.append((tag + ":values", flat(r.transpose(*[r.dims[i] for i in order]).data)))
            name = r.name
            for role in NAMESPACES[1]:
                if name == nm[role]:
                    name = "<%s>" % role
                    break
                if name == nm[role] + "_transformed":
                    name = "<%s>_transformed" % role
                    break
            self.append((tag + ":name", name))
        return r


def run(scen, nm, mk):
    return {"ops": run_ops, "faces": run_faces, "ufunc": run_ufunc, "comodo": run_comodo, "sgrid": run_sgrid, "transform": run_transform}[scen](nm, mk)


def _ds2(nm, attrs=False):
    coords = {
        nm["D1C"]: np.arange(N) + 0.5, nm["D1L"]: np.arange(N) * 1.0, nm["D1O"]: np.arange(N + 1) * 1.0,
        nm["D2C"]: np.arange(N) + 0.5, nm["D2L"]: np.arange(N) * 1.0, nm["T"]: [0, 1],
    }
    return xr.Dataset(coords=coords)


def run_ops(nm, mk):
    import xgcm
    out = Out()
    ds = _ds2(nm)
    for role, dims in (("M1", ["D1C"]), ("M1L", ["D1L"]), ("M2", ["D2C"]), ("A12", ["D2C", "D1C"])):
        ds[nm[role]] = ([nm[d] for d in dims], mk(role, tuple(ds.sizes[nm[d]] for d in dims), positive=True))
    a = mk("a", (2, N, N))
    da = xr.DataArray(a, dims=[nm["T"], nm["D2C"], nm["D1C"]], name=nm["DATA"])
    coords = {nm["AX1"]: {"center": nm["D1C"], "left": nm["D1L"], "outer": nm["D1O"]}, nm["AX2"]: {"center": nm["D2C"], "left": nm["D2L"]}}
    metrics = {(nm["AX1"],): [nm["M1"], nm["M1L"]], (nm["AX2"],): [nm["M2"]], (nm["AX1"], nm["AX2"]): [nm["A12"]]}
    g = Out()
    g.add("grid", lambda: xgcm.Grid(ds, coords=coords, periodic=False, boundary="extend", metrics=metrics, autoparse_metadata=False), nm)
    out.extend(g)
    grid = g.last
    if grid is None:
        return out
    X, Y = nm["AX1"], nm["AX2"]
    out.add("diff-str", lambda: grid.diff(da, X), nm)
    out.add("diff-list", lambda: grid.diff(da, [X]), nm)
    out.add("interp-to-outer", lambda: grid.interp(da, X, to="outer"), nm)
    out.add("min-multi", lambda: grid.min(da, [X, Y], to={X: "left", Y: "left"}), nm)
    out.add("max-multi-rev", lambda: grid.max(da, [Y, X], boundary={X: "fill", Y: "extend"}, fill_value={X: 2.5}), nm)
    out.add("cumsum-str", lambda: grid.cumsum(da, X, to="outer", boundary="fill", fill_value=0.0), nm)
    out.add("integrate-str", lambda: grid.integrate(da, X), nm)
    out.add("integrate-list", lambda: grid.integrate(da, [X]), nm)
    out.add("integrate-2", lambda: grid.integrate(da, [X, Y]), nm)
    out.add("average-str", lambda: grid.average(da, Y), nm)
    out.add("derivative", lambda: grid.derivative(da, X), nm)
    out.add("cumint", lambda: grid.cumint(da, Y, to="left", boundary="fill", fill_value=0.0), nm)
    out.add("get_metric-str", lambda: grid.get_metric(da, X), nm)
    out.add("interp-metric_weighted", lambda: grid.interp(da, X, metric_weighted=X), nm)
    out.add("interp-metric_weighted-2", lambda: grid.interp(da, Y, metric_weighted=[X, Y]), nm)
    out.add("keep_coords", lambda: grid.diff(da, Y, keep_coords=True), nm)
    # the axis set of a metric given as a bare axis name (the documented short spelling), at construction and afterwards
    g2 = Out()
    g2.add("grid-metric-keys-as-bare-names", lambda: xgcm.Grid(ds, coords=coords, periodic=False, boundary="extend",
                                                               metrics={X: [nm["M1"], nm["M1L"]], Y: [nm["M2"]]}, autoparse_metadata=False), nm)
    out.extend(g2)
    if g2.last is not None:
        grid2 = g2.last
        out.add("integrate-on-bare-key-grid", lambda: grid2.integrate(da, [X, Y]), nm)
        out.add("get_metric-on-bare-key-grid", lambda: grid2.get_metric(da, (Y,)), nm)

    def reregister():
        grid.set_metrics(X, nm["M1L"], overwrite=True)
        grid.set_metrics(Y, [nm["M2"]], overwrite=True)
        return grid.integrate(da, [Y, X])
    out.add("set_metrics-bare-name-then-integrate", reregister, nm)
    return out


def run_faces(nm, mk):
    import xgcm
    from xgcm.padding import pad
    out = Out()
    X, Y = nm["AX1"], nm["AX2"]
    ds = xr.Dataset(coords={nm["FACE"]: [0, 1], nm["D1C"]: np.arange(N) + 0.5, nm["D1L"]: np.arange(N) * 1.0,
                            nm["D2C"]: np.arange(N) + 0.5, nm["D2L"]: np.arange(N) * 1.0, nm["T"]: [0, 1]})
    table = {0: {X: (None, (1, Y, False))}, 1: {Y: ((0, X, False), None)}}
    g = Out()
    g.add("grid", lambda: xgcm.Grid(ds, coords={X: {"center": nm["D1C"], "left": nm["D1L"]}, Y: {"center": nm["D2C"], "left": nm["D2L"]}},
                                    periodic=False, boundary="fill", fill_value=0.0, face_connections={nm["FACE"]: table}, autoparse_metadata=False), nm)
    out.extend(g)
    grid = g.last
    if grid is None:
        return out
    a = mk("a", (2, 2, N, N))
    da = xr.DataArray(a, dims=[nm["T"], nm["FACE"], nm["D2C"], nm["D1C"]], name=nm["DATA"])
    u = xr.DataArray(mk("u", (2, N, N)), dims=[nm["FACE"], nm["D2C"], nm["D1L"]], name=nm["DATA"])
    v = xr.DataArray(mk("v", (2, N, N)), dims=[nm["FACE"], nm["D2L"], nm["D1C"]], name=nm["DATA2"])
    out.add("pad", lambda: pad(da, grid, boundary_width={X: (1, 2), Y: (2, 1)}, boundary="extend"), nm)
    out.add("diff-x", lambda: grid.diff(da, X, to="left"), nm)
    out.add("interp-y", lambda: grid.interp(da, Y, to="left"), nm)
    out.add("vector-diff", lambda: grid.diff({X: u}, X, to="center", other_component={Y: v}), nm)
    out.add("vector-interp-y", lambda: grid.interp({Y: v}, Y, to="center", other_component={X: u}), nm)
    return out


def run_ufunc(nm, mk):
    import xgcm
    from xgcm.grid_ufunc import apply_as_grid_ufunc, as_grid_ufunc
    out = Out()
    X, Y, U, V = nm["AX1"], nm["AX2"], nm["U1"], nm["U2"]
    ds = _ds2(nm)
    grid = xgcm.Grid(ds, coords={X: {"center": nm["D1C"], "left": nm["D1L"]}, Y: {"center": nm["D2C"], "left": nm["D2L"]}}, periodic=False,
                     boundary="extend", autoparse_metadata=False)
    a = mk("a", (2, N, N))
    da = xr.DataArray(a, dims=[nm["T"], nm["D2C"], nm["D1C"]], name=nm["DATA"])

    def f2(x):
        return x[..., 1:, 1:] - x[..., :-1, :-1]

    def f1(x):
        return x[..., 1:] - x[..., :-1]

    sig2 = "(%s:center,%s:center)->(%s:left,%s:left)" % (U, V, U, V)
    out.add("apply-2axes", lambda: apply_as_grid_ufunc(f2, da, axis=[(Y, X)], grid=grid, signature=sig2, boundary_width={U: (1, 0), V: (1, 0)}), nm)
    out.add("apply-2axes-swapped", lambda: apply_as_grid_ufunc(f2, da, axis=[(X, Y)], grid=grid, signature=sig2, boundary_width={U: (1, 0), V: (1, 0)},
                                                               boundary={X: "fill", Y: "extend"}, fill_value={X: 1.5}), nm)
    # both axes filled with a different value: the corner cells show the order in which the axes are padded,
    # which must follow the signature / boundary_width, never the spelling of the names
    out.add("apply-2axes-two-fills", lambda: apply_as_grid_ufunc(f2, da, axis=[(Y, X)], grid=grid, signature=sig2, boundary_width={U: (1, 0), V: (1, 0)},
                                                                 boundary="fill", fill_value={X: 1.5, Y: -2.5}), nm)
    out.add("apply-2axes-two-fills-swapped", lambda: apply_as_grid_ufunc(f2, da, axis=[(X, Y)], grid=grid, signature=sig2, boundary_width={V: (1, 0), U: (1, 0)},
                                                                         boundary="fill", fill_value={Y: -2.5, X: 1.5}), nm)
    sig1 = "(%s:center)->(%s:left)" % (U, U)
    out.add("decorated-1axis", lambda: as_grid_ufunc(signature=sig1, boundary_width={U: (1, 0)}, boundary="fill", fill_value=0.5)(f1)(grid, da, axis=[(X,)]), nm)
    out.add("grid-method", lambda: grid.apply_as_grid_ufunc(f1, da, axis=[(Y,)], signature=sig1, boundary_width={U: (1, 0)}), nm)
    out.add("wrong-position", lambda: grid.apply_as_grid_ufunc(f1, da, axis=[(Y,)], signature="(%s:left)->(%s:center)" % (U, U), boundary_width={U: (0, 1)}), nm)
    return out


def run_comodo(nm, mk):
    import xgcm
    out = Out()
    X, Y = nm["AX1"], nm["AX2"]
    coords = {
        nm["D1C"]: xr.DataArray(np.arange(N) + 0.5, dims=[nm["D1C"]], attrs={"axis": X}),
        nm["D1L"]: xr.DataArray(np.arange(N) * 1.0, dims=[nm["D1L"]], attrs={"axis": X, "c_grid_axis_shift": -0.5}),
        nm["D1O"]: xr.DataArray(np.arange(N + 1) * 1.0, dims=[nm["D1O"]], attrs={"axis": X, "c_grid_axis_shift": -0.5}),
        nm["D2C"]: xr.DataArray(np.arange(N) + 0.5, dims=[nm["D2C"]], attrs={"axis": Y}),
        nm["D2L"]: xr.DataArray(np.arange(N) + 1.0, dims=[nm["D2L"]], attrs={"axis": Y, "c_grid_axis_shift": 0.5}),
        nm["T"]: [0, 1],
    }
    ds = xr.Dataset(coords=coords)
    g = Out()
    g.add("grid", lambda: xgcm.Grid(ds, periodic=False), nm)
    out.extend(g)
    grid = g.last
    if grid is None:
        return out
    inv = inv_dims(nm)
    inva = {nm[r]: r for r in NAMESPACES[0]}
    out.append(("axes", sorted((inva.get(k, k), sorted((p, inv.get(d, d)) for p, d in ax.coords.items())) for k, ax in grid.axes.items())))
    a = mk("a", (2, N, N))
    da = xr.DataArray(a, dims=[nm["T"], nm["D2C"], nm["D1C"]], name=nm["DATA"])
    out.add("diff-x-left", lambda: grid.diff(da, X, to="left", boundary="extend"), nm)
    out.add("interp-x-outer", lambda: grid.interp(da, X, to="outer", boundary="extend"), nm)
    out.add("diff-y-right", lambda: grid.diff(da, Y, to="right", boundary="fill", fill_value=1.5), nm)
    out.add("cumsum-y", lambda: grid.cumsum(da, Y, boundary="fill"), nm)
    return out


def run_sgrid(nm, mk):
    import xgcm
    out = Out()
    coords = {nm["D1C"]: np.arange(N) + 0.5, nm["D1O"]: np.arange(N + 1) * 1.0, nm["D2C"]: np.arange(N) + 0.5, nm["D2L"]: np.arange(N) * 1.0,
              nm["D3C"]: np.arange(N) + 0.5, nm["D3O"]: np.arange(N + 1) * 1.0, nm["T"]: [0, 1]}
    ds = xr.Dataset(coords=coords)
    ds["grid_topo"] = xr.DataArray(0, attrs={
        "cf_role": "grid_topology", "topology_dimension": 2,
        "node_dimensions": "%s %s" % (nm["D1O"], nm["D2L"]),
        "face_dimensions": "%s: %s (padding: none) %s:%s (padding: high)" % (nm["D1C"], nm["D1O"], nm["D2C"], nm["D2L"]),
        "vertical_dimensions": "%s: %s (padding: none)" % (nm["D3C"], nm["D3O"]),
    })
    ds.attrs["Conventions"] = "CF-1.6, SGRID-0.3"
    g = Out()
    g.add("grid", lambda: xgcm.Grid(ds, periodic=False), nm)
    out.extend(g)
    grid = g.last
    if grid is None:
        return out
    inv = inv_dims(nm)
    out.append(("axes", sorted((k, sorted((p, inv.get(d, d)) for p, d in ax.coords.items())) for k, ax in grid.axes.items())))
    a = mk("a", (2, N, N, N))
    da = xr.DataArray(a, dims=[nm["T"], nm["D3C"], nm["D2C"], nm["D1C"]], name=nm["DATA"])
    out.add("diff-x", lambda: grid.diff(da, "X", boundary="extend"), nm)
    out.add("interp-y", lambda: grid.interp(da, "Y", boundary="extend"), nm)
    out.add("diff-z", lambda: grid.diff(da, "Z", boundary="fill", fill_value=0.5), nm)
    return out


def run_transform(nm, mk):
    import xgcm
    out = Out()
    Z = nm["AX3"]
    n = 3
    ds = xr.Dataset(coords={nm["D3C"]: np.arange(n) + 0.5, nm["D3O"]: np.arange(n + 1) * 1.0, nm["T"]: [0, 1], nm["D1C"]: [0.5, 1.5]})
    grid = xgcm.Grid(ds, coords={Z: {"center": nm["D3C"], "outer": nm["D3O"]}}, periodic=False, autoparse_metadata=False)
    phi = xr.DataArray(mk("phi", (2, n)), dims=[nm["T"], nm["D3C"]], name=nm["DATA"])
    thc = xr.DataArray(np.array([[1.0, 2.0, 4.0], [5.0, 3.5, 1.5]]), dims=[nm["T"], nm["D3C"]], name=nm["TGT"])
    tho = xr.DataArray(np.array([[0.5, 1.5, 3.0, 4.5], [4.0, 2.0, 2.0, 1.0]]), dims=[nm["T"], nm["D3O"]], name=nm["TGT"])
    lev = np.array([1.5, 3.0, 0.25])
    bins = np.array([0.5, 2.0, 3.0, 4.5])
    out.add("linear-bare", lambda: grid.transform(phi, Z, lev, target_data=thc, method="linear"), nm)
    out.add("linear-xarray-target", lambda: grid.transform(phi, Z, xr.DataArray(lev, dims=[nm["TDIM"]]), target_data=thc, method="linear", mask_edges=False), nm)
    out.add("linear-target_dim", lambda: grid.transform(phi, Z, xr.DataArray(np.stack([lev, lev + 0.5]), dims=[nm["T"], nm["TDIM"]]), target_data=thc, target_dim=nm["TDIM"]), nm)
    out.add("conservative-bare", lambda: grid.transform(phi, Z, bins, target_data=tho, method="conservative"), nm)
    out.add("conservative-xarray-target", lambda: grid.transform(phi, Z, xr.DataArray(bins, dims=[nm["TDIM"]]), target_data=tho, method="conservative"), nm)
    out.add("conservative-target_dim", lambda: grid.transform(phi, Z, xr.DataArray(bins, dims=[nm["TDIM"]]), target_data=tho, target_dim=nm["TDIM"], method="conservative"), nm)
    out.add("linear-axis-coordinate", lambda: grid.transform(phi, Z, np.array([0.75, 2.0])), nm)
    return out
