"""C04 Vector components cross rotated face links with the right partner and sign."""
import itertools
import sys
import warnings

import numpy as np
import xarray as xr

from lib import harness
from specs.stencil import spec_1d
from specs.topology import ROT, Decomp, expressible_orientations, neg, sgn

ID = "C04"
FUNCTIONS = ["xgcm.grid:Grid._apply_vector_function", "xgcm.padding:_pad_face_connections", "xgcm.padding:_maybe_rename_grid_positions",
             "xgcm.padding:_maybe_swap_dimension_names", "xgcm.padding:pad", "xgcm.grid:Grid._1d_grid_ufunc_dispatch",
             "xgcm.grid_ufunc:apply_as_grid_ufunc", "xgcm.grid_ufunc:_pad_then_rechunk", "xgcm.grid_ufunc:_check_data_input",
             "xgcm.grid_ufunc:_maybe_unpack_vector_component"]
BOUNDS = {
    "quick": {"decompositions": "(2,1),(1,2),(2,2),(3,1),(1,3): every assignment of the 4 rotations per face whose junctions are all non-reversed links; open (fill 0) and periodic domain; plus the grid without face connections",
              "N": [2], "operators": ["diff", "interp", "diff_2d_vector", "interp_2d_vector"], "components": ["X", "Y"], "extra dims": ["none", "t before face"]},
    "thorough": {"decompositions": "+ (3,2),(2,3)", "N": [2, 3]},
}
OUTSIDE = ["reversed links for vectors (excluded by the statement)", "non-centre targets", "open edges under a rule other than fill 0 when a face is rotated", "float rounding", "vector components of different dtypes (seed C04-d)"]
ASSUMPTIONS = ["input data finite"]
SWEEPS = {"int64": 2}


def sweep_applies(cfg, flavor):
    return cfg.get("kind") == "faces"


COORDS = {"X": {"center": "xc", "left": "xg"}, "Y": {"center": "yc", "left": "yg"}}


def cases(tier):
    out = []
    shapes = [(2, 1), (1, 2), (2, 2), (3, 1), (1, 3)] + ([(3, 2), (2, 3)] if tier == "thorough" else [])
    for (Kx, Ky) in shapes:
        for periodic in (False, True):
            oris = expressible_orientations(Kx, Ky, 2, periodic, group=ROT, only_nonreversed=True)
            for orient in oris:
                for N in ([2] if tier == "quick" else [2, 3]):
                    for lay in (("fyx", "tfyx") if Kx * Ky <= 2 or tier == "thorough" else ("fyx",)):
                        out.append(dict(kind="faces", Kx=Kx, Ky=Ky, N=N, orient=[list(map(list, o)) for o in orient],
                                        periodic=periodic, lay=lay, n_admissible=len(oris), n_rotations=4 ** (Kx * Ky), listing=len(out) % 3))
    for N in (2, 3):
        for gm in ("periodic", "fill", "extend"):
            for lay in ("yx", "tyx", "xy"):
                for frm in ("left", "right", "outer"):
                    out.append(dict(kind="noconn", N=N, gmode=gm, lay=lay, frm=frm))
    return out


def case(W, cfg):
    if cfg["kind"] == "noconn":
        return case_noconn(W, cfg)
    import xgcm
    orient = [tuple(map(tuple, o)) for o in cfg["orient"]]
    Kx, Ky, N, periodic = cfg["Kx"], cfg["Ky"], cfg["N"], cfg["periodic"]
    dec = Decomp(Kx, Ky, N, orient, periodic)
    table = dec.links()
    if table is not None and cfg.get("listing"):
        # the same links, faces listed in another order (descending / rotated): a table is a mapping, not a sequence
        ks = list(table)
        ks = ks[::-1] if cfg["listing"] == 1 else ks[1:] + ks[:1]
        table = {k: table[k] for k in ks}
    Wd, H, F = dec.W, dec.H, dec.F
    # global C-grid fluxes: U[y][x] through the low-x edge of cell (x,y) (x = 0..W), V[y][x] through the low-y edge
    Ua = W.data("U", (H, Wd + 1))
    Va = W.data("V", (H + 1, Wd))
    if not W.sym and W.flavor == "int64":
        # components of different dtypes: integer x-fluxes, fractional float y-fluxes
        Va = Va.astype(float) + 0.5

    def edgeflux(c, d):
        x, y = c
        if d == (-1, 0):
            xx, yy, A = x, y, Ua
        elif d == (1, 0):
            xx, yy, A = x + 1, y, Ua
        elif d == (0, -1):
            xx, yy, A = x, y, Va
        else:
            xx, yy, A = x, y + 1, Va
        if periodic:
            if A is Ua:
                xx %= Wd
            else:
                yy %= H
        else:
            if (A is Ua and xx in (0, Wd)) or (A is Va and yy in (0, H)):
                return 0.0  # open domain: the flux through the outer boundary is the fill value 0
        return A[yy, xx]

    nt = 2 if "t" in cfg["lay"] else 1
    u = np.empty((nt, F, N, N), dtype=object if W.sym else float)
    v = np.empty((nt, F, N, N), dtype=object if W.sym else float)
    scale = [1, 3]
    for tt in range(nt):
        for f in range(F):
            ex, ey = orient[f]
            for j in range(N):
                for i in range(N):
                    c = dec.to_global(f, i, j)
                    u[tt, f, j, i] = sgn(ex) * edgeflux(c, neg(ex)) * scale[tt]
                    v[tt, f, j, i] = sgn(ey) * edgeflux(c, neg(ey)) * scale[tt]
    ds = xr.Dataset(coords={"face": np.arange(F), "xc": np.arange(N) + 0.5, "xg": np.arange(N) * 1.0,
                            "yc": np.arange(N) + 0.5, "yg": np.arange(N) * 1.0, "t": [0, 1]})
    with warnings.catch_warnings():
        warnings.simplefilter("ignore")
        grid = xgcm.Grid(ds, coords=COORDS, periodic=False, boundary="fill", fill_value=0,
                         face_connections={"face": table}, autoparse_metadata=False)
    if not W.sym and W.flavor == "int64":
        # local components are +-U / +-V of whole faces only when no face is rotated; keep a dtype split per local
        # component anyway: u integer-typed when its values are integers
        if np.all(u == np.round(u)):
            u = u.astype(np.int64)
        if np.all(v == np.round(v)):
            v = v.astype(np.int64)
    if nt == 2:
        uda = xr.DataArray(u, dims=["t", "face", "yc", "xg"])
        vda = xr.DataArray(v, dims=["t", "face", "yg", "xc"])
    else:
        uda = xr.DataArray(u[0], dims=["face", "yc", "xg"])
        vda = xr.DataArray(v[0], dims=["face", "yg", "xc"])
    res = {}
    for op in ("diff", "interp"):
        ru = getattr(grid, op)({"X": uda}, "X", to="center", other_component={"Y": vda})
        rv = getattr(grid, op)({"Y": vda}, "Y", to="center", other_component={"X": uda})
        canon = (["t"] if nt == 2 else []) + ["face", "yc", "xc"]
        W.require("dims:%s:u" % op, tuple(ru.dims) == tuple(canon), str(ru.dims))
        W.require("dims:%s:v" % op, tuple(rv.dims) == tuple(canon), str(rv.dims))
        ru = ru.transpose(*canon).data
        rv = rv.transpose(*canon).data
        if nt == 1:
            ru, rv = ru[None], rv[None]
        wu = np.empty((nt, F, N, N), dtype=object if W.sym else float)
        wv = np.empty((nt, F, N, N), dtype=object if W.sym else float)
        for tt in range(nt):
            for f in range(F):
                ex, ey = orient[f]
                for j in range(N):
                    for i in range(N):
                        c = dec.to_global(f, i, j)
                        if op == "diff":
                            wu[tt, f, j, i] = sgn(ex) * (edgeflux(c, ex) - edgeflux(c, neg(ex))) * scale[tt]
                            wv[tt, f, j, i] = sgn(ey) * (edgeflux(c, ey) - edgeflux(c, neg(ey))) * scale[tt]
                        else:
                            # local components at the two local edges, averaged
                            wu[tt, f, j, i] = (sgn(ex) * edgeflux(c, neg(ex)) * scale[tt] + sgn(ex) * edgeflux(c, ex) * scale[tt]) / 2
                            wv[tt, f, j, i] = (sgn(ey) * edgeflux(c, neg(ey)) * scale[tt] + sgn(ey) * edgeflux(c, ey) * scale[tt]) / 2
        W.equal("%s:X-component" % op, ru, wu)
        W.equal("%s:Y-component" % op, rv, wv)
        res[op] = (ru, rv)
        # the (deprecated, still public) 2-D vector spelling is the same pair of calls
        with warnings.catch_warnings():
            warnings.simplefilter("ignore")
            r2 = getattr(grid, op + "_2d_vector")({"X": uda, "Y": vda}, to="center")
        W.require("2d_vector-keys:%s" % op, isinstance(r2, dict) and list(r2) == ["X", "Y"], str(type(r2)))
        for comp, want2 in (("X", wu), ("Y", wv)):
            r2c = r2[comp]
            W.require("2d_vector-dims:%s:%s" % (op, comp), tuple(r2c.dims) == tuple(canon), str(r2c.dims))
            r2d = r2c.transpose(*canon).data
            W.equal("2d_vector:%s:%s" % (op, comp), r2d[None] if nt == 1 else r2d, want2, record=False)
    # consequence: discrete divergence equals that of the undivided field
    ru, rv = res["diff"]
    div_got, div_want = [], []
    for tt in range(nt):
        for f in range(F):
            for j in range(N):
                for i in range(N):
                    x, y = dec.to_global(f, i, j)
                    div_got.append(ru[tt, f, j, i] + rv[tt, f, j, i])
                    div_want.append((edgeflux((x, y), (1, 0)) - edgeflux((x, y), (-1, 0)) + edgeflux((x, y), (0, 1)) - edgeflux((x, y), (0, -1))) * scale[tt])
    W.equal("divergence", div_got, div_want, record=False)


def case_noconn(W, cfg):
    """without face connections the vector form equals passing the component alone"""
    import xgcm
    from specs.stencil import apply_along, plen
    N, frm = cfg["N"], cfg["frm"]
    coords = {"X": {"center": "xc", frm: "xg"}, "Y": {"center": "yc", frm: "yg"}}
    ds = xr.Dataset(coords={"xc": np.arange(N) + 0.5, "xg": np.arange(plen(frm, N)) * 1.0, "yc": np.arange(N + 1) + 0.5,
                            "yg": np.arange(plen(frm, N + 1)) * 1.0, "t": [0, 1]})
    kw = {"periodic": dict(), "fill": dict(periodic=False, fill_value=1.5), "extend": dict(periodic=False, boundary="extend")}[cfg["gmode"]]
    rule, fill = {"periodic": ("periodic", 0.0), "fill": ("fill", 1.5), "extend": ("extend", 0.0)}[cfg["gmode"]]
    with warnings.catch_warnings():
        warnings.simplefilter("ignore")
        grid = xgcm.Grid(ds, coords=coords, autoparse_metadata=False, **kw)
    dims_u = {"yx": ["yc", "xg"], "tyx": ["t", "yc", "xg"], "xy": ["xg", "yc"]}[cfg["lay"]]
    dims_v = [{"yc": "yg", "xg": "xc"}.get(d, d) for d in dims_u]
    u = W.data("u", [ds.sizes[d] for d in dims_u])
    v = W.data("v", [ds.sizes[d] for d in dims_v])
    uda, vda = xr.DataArray(u, dims=dims_u), xr.DataArray(v, dims=dims_v)
    for op in ("diff", "interp"):
        for comp, da, oth, axn, n in (("X", uda, {"Y": vda}, "X", N), ("Y", vda, {"X": uda}, "Y", N + 1)):
            r_sca = getattr(grid, op)(da, axn, to="center")
            i = list(da.dims).index(coords[axn][frm])
            want = apply_along(da.data, i, lambda vals: spec_1d(vals, frm, "center", n, op, rule, fill))
            try:
                r_vec = getattr(grid, op)({comp: da}, axn, to="center", other_component=dict(oth))
            except Exception as e:
                W.fail("noconn-vector-raises:%s:%s" % (type(e).__name__, frm), "%s: %s" % (type(e).__name__, str(e)[:200]))
                continue
            W.require("noconn-dims:%s:%s" % (op, comp), tuple(r_vec.dims) == tuple(r_sca.dims), "%s vs %s" % (r_vec.dims, r_sca.dims))
            W.equal("noconn-vector=scalar:%s:%s" % (op, comp), r_vec.data, r_sca.data)
            W.equal("noconn-value:%s:%s" % (op, comp), r_vec.data, want, record=False)


if __name__ == "__main__":
    sys.exit(harness.main(sys.modules[__name__]))
