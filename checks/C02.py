"""C02 Boundary rule resolution and padding widths are exactly as specified."""
import itertools
import sys
import warnings

import numpy as np
import xarray as xr

from lib import harness
from lib.grids import axis_dims, make_ds
from specs.stencil import apply_along, plen, spec_1d, spec_pad1d

ID = "C02"
FUNCTIONS = ["xgcm.grid:Grid.__init__", "xgcm.grid:Grid._map_kwargs_over_axes",
             "xgcm.grid:Grid._complete_user_kwargs_using_axis_defaults", "xgcm.padding:pad", "xgcm.padding:_pad_basic",
             "xgcm.padding:_strip_all_coords", "xgcm.axis:Axis.__init__", "xgcm.grid:Grid._1d_grid_ufunc_dispatch"]
BOUNDS = {
    "quick": {"resolution": "6 periodic x 5 boundary x 4 fill_value constructor spellings x 7 boundary x 4 fill_value call spellings, 2 axes, N=2, 2 width sets",
              "geometry": "N in {2,3}, every (lo,hi) in {0..N}^2 on one axis with 3 fixed widths on the other, both dim orders, 3 rules, data on center/left/outer/right"},
    "thorough": {"resolution": "same spellings, N in {2,3}, 4 width sets, both dim orders",
                 "geometry": "N in {2,3,4,5}, every (lo,hi) in {0..N}^2 on both axes (N<=3) / one axis (N=4,5)"},
}
OUTSIDE = ["widths > N", "3 axes", "periodic given as a partial dict (statement does not fix the unnamed axes)", "float rounding", "integer fill values beyond 2**53 on int64 data (fills are reals / small integers; seed C02-d)"]
ASSUMPTIONS = ["input data finite"]
SWEEPS = {"nan": 5}


def sweep_applies(cfg, flavor):
    return cfg.get("kind") == "geo"


AXES = {"X": ("center", "left", "outer"), "Y": ("center", "right")}

P_SPELL = {"True": True, "False": False, "[]": [], "[X]": ["X"], "[X,Y]": ["X", "Y"], "{X:T,Y:F}": {"X": True, "Y": False}}
B_SPELL = {"None": None, "extend": "extend", "{X:extend,Y:fill}": {"X": "extend", "Y": "fill"}, "{X:extend}": {"X": "extend"},
           "{Y:periodic}": {"Y": "periodic"}}
F_SPELL = {"None": None, "1.5": 1.5, "{X:1.5,Y:2.5}": {"X": 1.5, "Y": 2.5}, "{Y:2.5}": {"Y": 2.5}}
CB_SPELL = {"None": None, "fill": "fill", "extend": "extend", "periodic": "periodic",
            "{X:fill,Y:extend}": {"X": "fill", "Y": "extend"}, "{X:fill}": {"X": "fill"}, "{Y:extend}": {"Y": "extend"}}
CF_SPELL = ["None", "s", "{X:s,Y:s}", "{Y:s}"]


def pick(spec, ax):
    if isinstance(spec, dict):
        return spec.get(ax)
    return spec


def spec_resolve(ax, periodic, gb, gf, cb, cf):
    """rule and fill in force for axis ax (C02 statement)"""
    r = pick(cb, ax)
    if r is None:
        r = pick(gb, ax)
    if r is None:
        if isinstance(periodic, list):
            per = ax in periodic
        elif isinstance(periodic, dict):
            per = periodic[ax]
        else:
            per = bool(periodic)
        r = "periodic" if per else "fill"
    f = pick(cf, ax)
    if f is None:
        f = pick(gf, ax)
    if f is None:
        f = 0.0
    return r, f


def cases(tier):
    out = []
    for p, b, f in itertools.product(P_SPELL, B_SPELL, F_SPELL):
        for N in ([2] if tier == "quick" else [2, 3]):
            for order in ([0] if tier == "quick" else [0, 1]):
                out.append(dict(kind="res", p=p, b=b, f=f, N=N, order=order))
    WN = {2: [(0, 0), (2, 1), (1, 2)], 3: [(0, 0), (3, 1), (1, 2)], 4: [(0, 0), (4, 2), (1, 3)], 5: [(0, 0), (5, 2), (3, 5)]}
    for N in ([2, 3] if tier == "quick" else [2, 3, 4, 5]):
        ws = list(itertools.product(range(N + 1), repeat=2))
        for rule in ("fill", "extend", "periodic"):
            for order in (0, 1):
                for posx, posy in (("center", "center"), ("left", "right"), ("outer", "center")):
                    if tier == "thorough" and N <= 3:
                        for wo in WN[N]:
                            out.append(dict(kind="geo", N=N, rule=rule, order=order, posx=posx, posy=posy, vary="X", other=list(wo), ws=[list(w) for w in ws]))
                            out.append(dict(kind="geo", N=N, rule=rule, order=order, posx=posx, posy=posy, vary="Y", other=list(wo), ws=[list(w) for w in ws]))
                    else:
                        out.append(dict(kind="geo", N=N, rule=rule, order=order, posx=posx, posy=posy, vary="X", other=list(WN[N][1]), ws=[list(w) for w in ws]))
                        out.append(dict(kind="geo", N=N, rule=rule, order=order, posx=posx, posy=posy, vary="Y", other=list(WN[N][2]), ws=[list(w) for w in ws]))
    return out


def _grid(ds, **kw):
    import xgcm
    with warnings.catch_warnings():
        warnings.simplefilter("ignore")
        return xgcm.Grid(ds, coords={ax: axis_dims(ax, lay) for ax, lay in AXES.items()}, autoparse_metadata=False, **kw)


def spec_pad2d(a, dims_order, dn, pos, widths, rules, fills):
    """oracle: pad array a (dims in dims_order) per axis"""
    cur = a
    for ax in ("X", "Y"):
        if ax not in widths:
            continue
        lo, hi = widths[ax]
        i = dims_order.index(dn[ax][pos[ax]])
        cur = apply_along(cur, i, lambda v, ax=ax, lo=lo, hi=hi: spec_pad1d(v, lo, hi, rules[ax], fills[ax]))
    return cur


def case(W, cfg):
    from xgcm.padding import pad
    N = cfg["N"]
    n = {"X": N, "Y": N + 1}
    ds = make_ds(AXES, n)
    dn = {ax: axis_dims(ax, AXES[ax]) for ax in AXES}
    if cfg["kind"] == "geo":
        grid = _grid(ds, periodic=False)
        pos = {"X": cfg["posx"], "Y": cfg["posy"]}
        order = [dn["Y"][pos["Y"]], dn["X"][pos["X"]]]
        if cfg["order"]:
            order = order[::-1]
        a = W.data("a", [ds.sizes[d] for d in order])
        da = xr.DataArray(a, dims=order)
        fv = W.scalar("fv")
        rules = {"X": cfg["rule"], "Y": cfg["rule"]}
        fills = {"X": fv, "Y": fv}
        other = "Y" if cfg["vary"] == "X" else "X"
        for w in cfg["ws"]:
            widths = {cfg["vary"]: tuple(w), other: tuple(cfg["other"])}
            r = pad(da, grid, boundary_width=widths, boundary=cfg["rule"], fill_value=fv)
            lab = "%s=%s" % (cfg["vary"], tuple(w))
            want = spec_pad2d(a, order, dn, pos, widths, rules, fills)
            W.require("geo-dims:" + lab, tuple(r.dims) == tuple(order), "dims %s" % (r.dims,))
            W.equal("geo-value:" + lab, r.data, want)
            # every original value stays in place
            lo = {ax: widths[ax][0] for ax in widths}
            sl = tuple(slice(lo[ax], lo[ax] + a.shape[order.index(dn[ax][pos[ax]])]) for ax in ("Y", "X"))
            if cfg["order"]:
                sl = sl[::-1]
            if tuple(r.dims) == tuple(order) and r.shape == want.shape:
                W.equal("geo-interior:" + lab, r.data[sl], a, record=False)
        return
    # resolution family
    periodic, gb, gf = P_SPELL[cfg["p"]], B_SPELL[cfg["b"]], F_SPELL[cfg["f"]]
    import copy
    try:
        grid = _grid(ds, periodic=copy.deepcopy(periodic), boundary=copy.deepcopy(gb), fill_value=copy.deepcopy(gf))
    except Exception as e:  # the statement lists every one of these spellings as valid
        W.fail("ctor-raises:%s" % type(e).__name__, "Grid(periodic=%r, boundary=%r, fill_value=%r) raised %s: %s" % (periodic, gb, gf, type(e).__name__, e))
        return
    unnamed = [ax for ax in AXES if isinstance(periodic, list) and ax not in periodic]
    nfail = len(W.failures)
    resolution_checks(W, cfg, grid, ds, dn, n, N, periodic, gb, gf, "")
    if unnamed and len(W.failures) > nfail:
        # the listed finding (unnamed axes of a periodic list stay periodic) is present on this tree: ask
        # again with exactly that deviation built into the oracle, so that any *other* deviation of the
        # same configurations is still reported (labels 'adj:' are never known findings)
        adjusted = {ax: (ax in periodic) or (ax in unnamed) for ax in AXES}
        resolution_checks(W, cfg, grid, ds, dn, n, N, adjusted, gb, gf, "adj:")


def resolution_checks(W, cfg, grid, ds, dn, n, N, periodic, gb, gf, pre):
    import copy
    from xgcm.padding import pad
    for ax in AXES:
        r, f = spec_resolve(ax, periodic, gb, gf, None, None)
        W.require(pre + "grid-default-rule:%s" % ax, grid.axes[ax].boundary == r, "axis %s boundary %r want %r" % (ax, grid.axes[ax].boundary, r))
        W.require(pre + "grid-default-fill:%s" % ax, grid.axes[ax].fill_value == f, "axis %s fill %r want %r" % (ax, grid.axes[ax].fill_value, f))
    pos = {"X": "center", "Y": "center"}
    order = [dn["Y"]["center"], dn["X"]["center"]]
    if cfg["order"]:
        order = order[::-1]
    a = W.data("a", [ds.sizes[d] for d in order])
    da = xr.DataArray(a, dims=order)
    sx_, sy_ = W.scalar("sx"), W.scalar("sy")
    wsets = [{"X": (1, 2), "Y": (2, 1)}, {"X": (0, 1)}]
    if N == 3:
        wsets += [{"Y": (3, 0)}, {"X": (2, 2), "Y": (0, 0)}]
    for cbn, cfn in itertools.product(CB_SPELL, CF_SPELL):
        cb = CB_SPELL[cbn]
        cf = {"None": None, "s": sx_, "{X:s,Y:s}": {"X": sx_, "Y": sy_}, "{Y:s}": {"Y": sy_}}[cfn]
        res = {ax: spec_resolve(ax, periodic, gb, gf, cb, cf) for ax in AXES}
        rules = {ax: res[ax][0] for ax in AXES}
        fills = {ax: res[ax][1] for ax in AXES}
        for wi, widths in enumerate(wsets):
            lab = "%s|%s|w%d" % (cbn, cfn, wi)
            try:
                r = pad(da, grid, boundary_width=dict(widths), boundary=copy.copy(cb), fill_value=copy.copy(cf))
            except Exception as e:
                W.fail(pre + "pad-raises:%s:%s" % (type(e).__name__, lab), "%s: %s" % (type(e).__name__, e))
                continue
            want = spec_pad2d(a, order, dn, pos, widths, rules, fills)
            W.equal(pre + "res-value:" + lab, r.data, want)
        # second observation point: the same resolution through Grid.diff
        if cfn in ("s", "{X:s,Y:s}") or cbn in ("None", "{X:fill}"):
            kw = {}
            if cb is not None:
                kw["boundary"] = copy.copy(cb)
            if cf is not None:
                kw["fill_value"] = copy.copy(cf)
            try:
                r = grid.diff(da, "X", to="left", **kw)
            except Exception as e:
                W.fail(pre + "diff-raises:%s:%s|%s" % (type(e).__name__, cbn, cfn), "%s: %s" % (type(e).__name__, e))
                continue
            i = order.index(dn["X"]["center"])
            want = apply_along(a, i, lambda v: spec_1d(v, "center", "left", n["X"], "diff", rules["X"], fills["X"]))
            W.equal(pre + "res-diff:%s|%s" % (cbn, cfn), r.data, want)


def finding_key(cfg, v):
    lab = v["label"]
    if cfg.get("kind") == "res":
        if lab.startswith("ctor-raises:KeyError") and isinstance(B_SPELL[cfg["b"]], dict):
            return "ctor-partial-boundary-mapping-KeyError"
        if isinstance(P_SPELL[cfg["p"]], list) and len(P_SPELL[cfg["p"]]) < len(AXES) and (lab.startswith("grid-default-rule") or lab.startswith("res-")):
            return "periodic-list-leaves-unnamed-axes-periodic"
    return lab


if __name__ == "__main__":
    sys.exit(harness.main(sys.modules[__name__]))
