"""C07 Conservative transform neither creates nor destroys the transformed quantity."""
import itertools
import sys
import warnings

import numpy as np
import xarray as xr
import z3

from lib import harness
from sx.core import SBool, SReal, lift, smax, smin

ID = "C07"
FUNCTIONS = ["xgcm.transform:_interp_1d_conservative", "xgcm.transform:interp_1d_conservative",
             "xgcm.transform:conservative_interpolation", "xgcm.transform:input_handling", "xgcm.transform:transform",
             "xgcm.grid:Grid.transform", "xgcm.grid:Grid.interp"]
BOUNDS = {
    "quick": {"kernel lemmas (merged AST encoding, k2smt)": "n<=4 cells x m<=5 bins: linearity in phi, weight sum 1, weights >= 0, bin merging, overlap formula",
              "end-to-end forking through the unmodified kernel inside Grid.transform": "n,m <= 3, all theta/bin orderings, every path: conservation, non-negativity",
              "wrapper (merged kernel)": "2 columns, n=3, m=3: decreasing bins reverse per column, column independence, extra-dim order, dask chunks over the extra dim, target_data on centres"},
    "thorough": {"kernel lemmas": "n<=6, m<=8", "end-to-end forking": "n,m <= 4 (n*m <= 12)", "wrapper": "n<=4, m<=4, 2 extra dims"},
}
OUTSIDE = ["NaN in theta/phi (np.isnan is concretely False on symbolic inputs)", "float32 instantiation",
           "numba's nopython semantics (the stand-in runs the Python body)", "float rounding", "sizes beyond the bounds"]
ASSUMPTIONS = ["bins strictly monotonic", "all target_data values within the span of the bins", "inputs finite",
               "vendored numba stand-in broadcasts like numpy gufuncs (validated per run)"]
CASE_BUDGET_S = {"quick": 600, "thorough": 3000}
MAX_PATHS = 200000


def cases(tier):
    out = []
    sizes = [(1, 1), (1, 2), (2, 2), (2, 3), (3, 3), (4, 5)] if tier == "quick" else [(1, 1), (1, 2), (2, 2), (2, 3), (3, 3), (4, 5), (5, 6), (6, 8)]
    for n, m in sizes:
        for lemma in ("additive", "scale", "sum", "nonneg", "merge", "overlap") + (("direct",) if n * m <= 9 else ()):
            out.append(dict(kind="k2", n=n, m=m, lemma=lemma))
    e2e = [(1, 1), (1, 2), (2, 1), (2, 2), (2, 3), (3, 2), (3, 3)] + ([(3, 4), (4, 3), (2, 4), (4, 2)] if tier == "thorough" else [])
    for n, m in e2e:
        for pat in itertools.product((0, 1, 2), repeat=n):
            # pattern per cell: theta_i < theta_{i+1}, ==, >
            out.append(dict(kind="e2e", n=n, m=m, pat=list(pat), dec=False))
        if n <= 2:
            for pat in itertools.product((0, 1, 2), repeat=n):
                out.append(dict(kind="e2e", n=n, m=m, pat=list(pat), dec=True))
    for (n, m) in ([(3, 3), (2, 2)] if tier == "quick" else [(3, 3), (2, 2), (4, 4), (4, 3)]):
        for variant in ("tz", "zt", "dask", "centres", "xarray-target", "xarray-target-dim"):
            for dec in (False, True):
                out.append(dict(kind="wrap", n=n, m=m, variant=variant, dec=dec))
    out.append(dict(kind="standin"))
    return out


def case(W, cfg):
    return {"k2": case_k2, "e2e": case_e2e, "wrap": case_wrap, "standin": case_standin}[cfg["kind"]](W, cfg)


# ----------------------------------------------------------------- inputs
def draw_column(W, n, m, tag="", dec=False, concrete_bins=False):
    """phi (n), theta on bounds (n+1), bins (m+1) with the property's assumptions"""
    if concrete_bins:
        # dask cannot wrap an eager dtype=object array (no auto-chunking of objects): in the dask variants
        # the bins are concrete numbers, the data stay symbolic
        bc = np.array([1.0 + 1.5 * j for j in range(m + 1)])
        bc = bc[::-1].copy() if dec else bc
        phi = W.data("phi" + tag, (n,))
        th = W.data("th" + tag, (n + 1,), gen=lambda r: (r.choice(list(bc)) if r.random() < 0.4 else r.uniform(min(bc), max(bc))))
        for t in th:
            W.assume(t >= min(bc))
            W.assume(t <= max(bc))
        return phi, th, bc
    if W.sym:
        phi = W.data("phi" + tag, (n,))
        th = W.data("th" + tag, (n + 1,))
        b = W.data("b", (m + 1,))
        for j in range(m):
            W.assume((b[j] > b[j + 1]) if dec else (b[j] < b[j + 1]))
        lo, hi = (b[m], b[0]) if dec else (b[0], b[m])
        for t in th:
            W.assume(t >= lo)
            W.assume(t <= hi)
        return phi, th, b
    # float mode: random values that satisfy the assumptions unless the env dictates them
    b = W.data("b", (m + 1,), gen=lambda r: r.randint(-8, 8) / 2.0)
    if not all(("b_%d" % j) in W.env for j in range(m + 1)):
        vals = sorted(set(float(x) for x in b))
        while len(vals) < m + 1:
            vals.append(vals[-1] + 1.0)
        vals = vals[: m + 1]
        if dec:
            vals = vals[::-1]
        for j in range(m + 1):
            W.used["b_%d" % j] = vals[j]
        b = np.array(vals)
    lo, hi = min(b), max(b)
    edges = list(b)
    th = W.data("th" + tag, (n + 1,), gen=lambda r: (r.choice(edges) if r.random() < 0.4 else r.uniform(lo, hi)))
    phi = W.data("phi" + tag, (n,))
    ok = all((b[j] > b[j + 1]) if dec else (b[j] < b[j + 1]) for j in range(m)) and all(lo <= t <= hi for t in th)
    W.assume(ok)
    return phi, th, b


def total(xs):
    acc = 0.0
    for x in xs:
        acc = acc + x
    return acc


# ------------------------------------------------------- kernel lemmas (k2smt)
def spec_weight(th0, th1, blo, bhi, last):
    """weight of a cell with target_data interval [th0, th1] (either order) in bin [blo, bhi]:
    overlap / cell width; a homogeneous cell (th0 == th1) lies in exactly one bin (half-open
    bins, the last bin closed)."""
    tmin, tmax = smin(th0, th1), smax(th0, th1)
    ov = smax(smin(tmax, bhi) - smax(tmin, blo), 0.0)
    return tmin, tmax, ov


def case_k2(W, cfg):
    import k2smt
    import xgcm.transform as T
    n, m, lemma = cfg["n"], cfg["m"], cfg["lemma"]
    kern = T._interp_1d_conservative
    phi, th, b = draw_column(W, n, m)

    def run(phi_, b_):
        mm = len(b_) - 1
        if W.sym:
            out = np.empty(mm, dtype=object)
            env = k2smt.encode(kern, phi_, th[:-1], th[1:], b_[:-1], b_[1:], out)
            return env["output"]
        out = np.zeros(mm)
        kern.py_func(np.asarray(phi_, dtype=float), np.asarray(th[:-1], dtype=float), np.asarray(th[1:], dtype=float),
                     np.asarray(b_[:-1], dtype=float), np.asarray(b_[1:], dtype=float), out)
        return out

    def unit(i):
        e = np.zeros(n) if not W.sym else np.array([0.0] * n, dtype=object)
        e[i] = 1.0
        return e

    w = [run(unit(i), b) for i in range(n)]  # w[i][j]
    def only(i):
        e = np.zeros(n) if not W.sym else np.array([0.0] * n, dtype=object)
        e[i] = phi[i]
        return e

    if lemma == "additive":
        # kernel(phi) == sum_i kernel(phi_i e_i)   (same monomials on both sides: decided in LRA after
        # abstracting the nonlinear monomials, see harness.abstract_nonlinear)
        out = run(phi, b)
        singles = [run(only(i), b) for i in range(n)]
        want = [total([singles[i][j] for i in range(n)]) for j in range(m)]
        W.equal("k2:additive-in-cells", list(out), want)
    elif lemma == "scale":
        # kernel(phi_i e_i) == phi_i * kernel(e_i): with additivity this is linearity in phi
        for i in range(n):
            single = run(only(i), b)
            W.equal("k2:scales-with-phi:cell%d" % i, list(single), [phi[i] * w[i][j] for j in range(m)], record=False)
    elif lemma == "direct":
        out = run(phi, b)
        W.equal("k2:direct-conservation", [total(list(out))], [total(list(phi))])
    elif lemma == "sum":
        for i in range(n):
            W.equal("k2:weight-sum:cell%d" % i, [total(list(w[i]))], [1.0])
    elif lemma == "nonneg":
        for i in range(n):
            for j in range(m):
                if W.sym:
                    W.require("k2:weight>=0", SBool(lift(w[i][j]) >= 0), "cell %d bin %d: %s" % (i, j, w[i][j]))
                else:
                    W.require("k2:weight>=0", w[i][j] >= -1e-12, "cell %d bin %d: %r" % (i, j, w[i][j]))
    elif lemma == "merge":
        for j in range(m - 1):
            b2 = np.concatenate([b[: j + 1], b[j + 2:]])
            for i in range(n):
                w2 = run(unit(i), b2)
                want = list(w[i][:j]) + [w[i][j] + w[i][j + 1]] + list(w[i][j + 2:])
                W.equal("k2:merge-bins", list(w2), want, record=False)
    elif lemma == "overlap":
        for i in range(n):
            got, want = [], []
            for j in range(m):
                tmin, tmax, ov = spec_weight(th[i], th[i + 1], b[j], b[j + 1], j == m - 1)
                if W.sym:
                    inbin = z3.And(lift(b[j]) <= lift(tmin), z3.Or(lift(tmin) < lift(b[j + 1]), z3.BoolVal(j == m - 1)))
                    hom = z3.If(inbin, z3.RealVal(1), z3.RealVal(0))
                    want.append(SReal(z3.If(lift(tmin) == lift(tmax), hom, lift(ov) / (lift(tmax) - lift(tmin)))))
                else:
                    if tmin == tmax:
                        want.append(1.0 if (b[j] <= tmin and (tmin < b[j + 1] or j == m - 1)) else 0.0)
                    else:
                        want.append(ov / (tmax - tmin))
                got.append(w[i][j])
            W.equal("k2:overlap-weight:cell%d" % i, got, want)


# ------------------------------------------ end-to-end through Grid.transform
def make_grid(n, extra=None, layout=("center", "outer")):
    import xgcm
    coords = {"zc": np.arange(n) + 0.5, "zo": np.arange(n + 1) * 1.0}
    coords.update(extra or {})
    ds = xr.Dataset(coords=coords)
    with warnings.catch_warnings():
        warnings.simplefilter("ignore")
        return xgcm.Grid(ds, coords={"Z": {"center": "zc", "outer": "zo"}}, periodic=False, autoparse_metadata=False)


def case_e2e(W, cfg):
    n, m, dec = cfg["n"], cfg["m"], cfg["dec"]
    phi, th, b = draw_column(W, n, m, dec=dec)
    for i, p in enumerate(cfg["pat"]):
        c = (th[i] < th[i + 1]) if p == 0 else ((th[i] == th[i + 1]) if p == 1 else (th[i] > th[i + 1]))
        W.assume(c)
    grid = make_grid(n)
    pda = xr.DataArray(phi, dims=["zc"], name="phi")
    tda = xr.DataArray(th, dims=["zo"], name="theta")
    r = grid.transform(pda, "Z", b, target_data=tda, method="conservative")
    W.require("e2e:dims", tuple(r.dims) == ("theta",), str(r.dims))
    W.require("e2e:length", r.sizes["theta"] == m, str(dict(r.sizes)))
    W.equal("e2e:conservation", [total(list(r.data))], [total(list(phi))])
    centres = [(b[j] + b[j + 1]) / 2 for j in range(m)]
    W.equal("e2e:coordinate=bin-centres", list(r["theta"].data), centres, record=False)
    # non-negative inputs give non-negative outputs
    if W.sym:
        pos = z3.And([lift(p) >= 0 for p in phi])
        W.require("e2e:nonneg", SBool(z3.Implies(pos, z3.And([lift(o) >= 0 for o in r.data]))), "phi>=0 but some output < 0")
    else:
        if all(p >= 0 for p in phi):
            W.require("e2e:nonneg", all(o >= -1e-12 for o in r.data), "outputs %r" % (list(r.data),))
    W.record("e2e:out", list(r.data))


def case_wrap(W, cfg):
    import numba
    n, m, variant, dec = cfg["n"], cfg["m"], cfg["variant"], cfg["dec"]
    numba.MERGE = True
    try:
        _case_wrap(W, n, m, variant, dec)
    finally:
        numba.MERGE = False


def _case_wrap(W, n, m, variant, dec):
    cb = variant in ("dask", "centres")
    phi0, th0, b = draw_column(W, n, m, tag="0", dec=dec, concrete_bins=cb)
    phi1, th1, _ = draw_column(W, n, m, tag="1", dec=dec, concrete_bins=cb)
    grid = make_grid(n, {"t": [0, 1]})
    phi = np.stack([phi0, phi1])
    th = np.stack([th0, th1])
    single = []
    for c, (p_, t_) in enumerate(((phi0, th0), (phi1, th1))):
        r1 = grid.transform(xr.DataArray(p_, dims=["zc"], name="phi"), "Z", b,
                            target_data=xr.DataArray(t_, dims=["zo"], name="theta"), method="conservative")
        single.append(list(r1.data))
    b_inc = b[::-1] if dec else b
    if variant in ("tz", "zt", "dask", "xarray-target", "xarray-target-dim"):
        pda = xr.DataArray(phi, dims=["t", "zc"], name="phi")
        tda = xr.DataArray(th, dims=["t", "zo"], name="theta")
        target = b
        if variant == "zt":
            pda, tda = pda.transpose("zc", "t"), tda.transpose("zo", "t")
        if variant == "dask":
            pda, tda = dasked(pda, {"t": 1}), dasked(tda, {"t": 1})
        kwt = {}
        if variant == "xarray-target":
            target = xr.DataArray(b, dims=["rho"], coords={"rho": np.arange(m + 1)})
        if variant == "xarray-target-dim":
            # labels of the target differ from its values; the dimension is also named explicitly
            target = xr.DataArray(b, dims=["rho"], coords={"rho": np.arange(m + 1) * 10.0 + 100.0})
            kwt["target_dim"] = "rho"
        if variant == "tz":
            # bypass_checks is documented for the linear / log methods only: for the conservative method it changes nothing
            kwt["bypass_checks"] = True
        r = grid.transform(pda, "Z", target, target_data=tda, method="conservative", **kwt)
        newdim = "rho" if variant.startswith("xarray-target") else "theta"
        W.require("wrap:dims:" + variant, set(r.dims) == {"t", newdim} and r.sizes[newdim] == m, "%s %s" % (r.dims, dict(r.sizes)))
        if variant == "dask":
            W.require("wrap:lazy", hasattr(r.data, "dask"), "result is not lazy")
            r = r.compute(scheduler="synchronous")
        rr = r.transpose("t", newdim).data
        for c in (0, 1):
            W.equal("wrap:column-independent:%s:col%d" % (variant, c), list(rr[c]), single[c])
        # each column's symbols only
        if W.sym:
            for c in (0, 1):
                other = "phi%d" % (1 - c)
                bad = [str(x) for x in rr[c] if other in str(lift(x))]
                W.require("wrap:no-cross-column-symbols", not bad, str(bad[:1]))
        if dec:
            # listing the bins in decreasing order only reverses the output (per column)
            r_inc = grid.transform(xr.DataArray(phi, dims=["t", "zc"], name="phi"), "Z", b_inc,
                                   target_data=xr.DataArray(th, dims=["t", "zo"], name="theta"), method="conservative")
            ri = r_inc.transpose("t", "theta").data
            for c in (0, 1):
                W.equal("wrap:decreasing-bins-reverse:%s:col%d" % (variant, c), list(rr[c]), list(ri[c])[::-1], record=False)
        if n * m <= 4:
            for c in (0, 1):
                W.equal("wrap:conservation:%s:col%d" % (variant, c), [total(list(rr[c]))], [total(list(phi[c]))], record=False)
    else:  # target_data on centres goes through interp(boundary='extend') to the cell bounds
        thc = np.stack([th0[:n], th1[:n]])
        pda = dasked(xr.DataArray(phi, dims=["t", "zc"], name="phi"), {})
        # dask-backed with explicit chunks: xgcm re-chunks the interpolated target_data, and dask cannot
        # auto-chunk dtype=object arrays that are not chunked yet (environment limit of the symbolic run)
        tdc = dasked(xr.DataArray(thc, dims=["t", "zc"], name="theta"), {})
        r = grid.transform(pda, "Z", b, target_data=tdc, method="conservative")
        W.require("wrap:centres:dims", set(r.dims) == {"t", "theta"} and r.sizes["theta"] == m, str(r.dims))
        r = r.compute(scheduler="synchronous") if hasattr(r.data, "dask") else r
        rr = r.transpose("t", "theta").data
        # a second transform on the same Grid with other target_data of the same name, dims and shape
        thc2 = np.stack([th1[:n], th0[:n]])
        tdc2 = dasked(xr.DataArray(thc2, dims=["t", "zc"], name="theta"), {})
        r2 = grid.transform(pda, "Z", b, target_data=tdc2, method="conservative")
        r2 = r2.compute(scheduler="synchronous") if hasattr(r2.data, "dask") else r2
        rr2 = r2.transpose("t", "theta").data
        for c in (0, 1):
            col = list(thc2[c])
            bounds = [col[0]] + [(col[k] + col[k + 1]) / 2 for k in range(n - 1)] + [col[-1]]
            r1 = grid.transform(xr.DataArray(phi[c], dims=["zc"], name="phi"), "Z", b,
                                target_data=xr.DataArray(np.array(bounds, dtype=thc.dtype), dims=["zo"], name="theta"), method="conservative")
            W.equal("wrap:centres:second-call-uses-its-own-target_data:col%d" % c, list(rr2[c]), list(r1.data), record=False)
        for c in (0, 1):
            col = list(thc[c])
            bounds = [col[0]] + [(col[k] + col[k + 1]) / 2 for k in range(n - 1)] + [col[-1]]
            r1 = grid.transform(xr.DataArray(phi[c], dims=["zc"], name="phi"), "Z", b,
                                target_data=xr.DataArray(np.array(bounds, dtype=thc.dtype), dims=["zo"], name="theta"), method="conservative")
            W.equal("wrap:centres=interp-extend-to-bounds:col%d" % c, list(rr[c]), list(r1.data))


def dasked(da, chunks):
    """dask-backed copy with explicit chunk sizes (dims not named: one chunk)"""
    import dask.array as dsa
    ch = tuple(chunks.get(d, da.sizes[d]) for d in da.dims)
    return xr.DataArray(dsa.from_array(da.data, chunks=ch), dims=da.dims, name=da.name, coords=da.coords)


def case_standin(W, cfg):
    """validate the numba stand-in against numpy's own gufunc broadcasting on the kernels' layouts"""
    if W.sym:
        W.require("standin:validated-in-float-run", True)
    import numba
    rng = np.random.RandomState(1)

    def k_cons(phi, t1, t2, h1, h2, out):
        out[:] = phi.sum() + t1.sum() - t2.sum() + np.arange(len(h1)) * h1 + h2

    def k_lin(phi, theta, lev, mask, bypass, out):
        out[:] = lev * phi.sum() + theta[0] + (1.0 if mask else 0.0) + (2.0 if bypass else 0.0)

    g1 = numba.guvectorize([], "(n),(n),(n),(m),(m)->(m)")(k_cons)
    g2 = numba.guvectorize([], "(n),(n),(m),(),()->(m)")(k_lin)
    v1 = np.vectorize(lambda a, b_, c, d, e: (lambda o: (k_cons(a, b_, c, d, e, o), o)[1])(np.zeros(len(d))), signature="(n),(n),(n),(m),(m)->(m)")
    v2 = np.vectorize(lambda a, b_, c, d, e: (lambda o: (k_lin(a, b_, c, d, e, o), o)[1])(np.zeros(len(c))), signature="(n),(n),(m),(),()->(m)")
    ok = True
    for shp in [(), (3,), (2, 3), (1, 3)]:
        a, b_, c = rng.rand(*shp, 4), rng.rand(*shp, 4), rng.rand(*shp, 4)
        d, e = rng.rand(5), rng.rand(5)
        ok &= np.allclose(g1(a, b_, c, d, e), v1(a, b_, c, d, e))
        ok &= np.allclose(g2(a, b_, d, True, False), v2(a, b_, d, True, False))
    ok &= np.allclose(g1(rng.rand(2, 1, 4), rng.rand(1, 3, 4), rng.rand(4), d, e).shape, (2, 3, 5))
    W.require("standin:broadcast-like-numpy-gufunc", bool(ok), "stand-in disagrees with np.vectorize(signature=...)")


if __name__ == "__main__":
    sys.exit(harness.main(sys.modules[__name__]))
