"""C06 Lazy (dask) execution equals in-memory execution for every chunking."""
import itertools
import sys
import warnings

import numpy as np
import xarray as xr
import z3

from lib import harness
from sx.core import SBool, SInt
from specs.stencil import plen, valid_shift
from specs.topology import make_two_face_table

ID = "C06"
FUNCTIONS = ["xgcm.grid:Grid._1d_grid_ufunc_dispatch", "xgcm.grid_ufunc:_map_func_over_core_dims", "xgcm.grid_ufunc:_pad_then_rechunk",
             "xgcm.grid_ufunc:_rechunk_to_merge_in_boundary_chunks", "xgcm.grid_ufunc:_get_chunk_pattern_for_merging_boundary",
             "xgcm.grid_ufunc:_check_if_length_would_change", "xgcm.grid_ufunc:_has_chunked_core_dims", "xgcm.grid_ufunc:apply_as_grid_ufunc",
             "xgcm.grid:Grid.cumsum", "xgcm.grid:Grid.integrate", "xgcm.grid:Grid.average", "xgcm.grid:Grid.derivative", "xgcm.grid:Grid.cumint",
             "xgcm.padding:pad", "xgcm.padding:_pad_face_connections"]
BOUNDS = {
    "quick": {"simple grid": "array (t=2, x=N) with N=4 (N=3 for outer/inner sources), every composition of both dimension lengths into chunks, all 8 shifts, diff/interp/min/max/cumsum; derivative/integrate/average/cumint/apply_as_grid_ufunc (+-map_overlap) on a metric grid for every chunking",
              "face-connected": "2 faces (same-axis and axis-swapping link), chunked over face and extra dimension in every composition, scalar and vector input",
              "chunk arithmetic": "_get_chunk_pattern_for_merging_boundary with symbolic chunk sizes (unbounded Int >= 1) and widths (Int >= 0), 1-6 chunks",
              "schedulers": "synchronous and threads (symbolic run: threads with one worker, z3 is not thread-safe; float run: 4 workers)"},
    "thorough": {"simple grid": "+ (t=2, y=3, x=4) 3-D arrays chunked on every dimension, fill value given per call", "face-connected": "+ all 8 link kinds"},
}
OUTSIDE = ["thread interleavings are not explored (tasks are pure functions of their inputs; one schedule per case)", "distributed scheduler",
           "dimension lengths > 4 in the end-to-end harness", "symbolic fill values under dask (dask.array.pad insists on numbers): fill values are concrete there",
           "floating-point non-associativity of chunked sums"]
ASSUMPTIONS = ["data finite", "dask executes object-dtype graphs as float graphs (checked by the float64 run)"]


def compositions(n):
    out = []
    for cuts in itertools.product((0, 1), repeat=n - 1):
        parts, cur = [], 1
        for c in cuts:
            if c:
                parts.append(cur)
                cur = 1
            else:
                cur += 1
        parts.append(cur)
        out.append(tuple(parts))
    return out


def cases(tier):
    out = []
    shifts = [(f, t) for f in ("center", "left", "right", "inner", "outer") for t in ("center", "left", "right", "inner", "outer") if valid_shift(f, t)]
    for frm, to in shifts:
        N = 4
        for cx in compositions(plen(frm, N)):
            out.append(dict(kind="simple", frm=frm, to=to, N=N, cx=list(cx)))
    for cx in compositions(4):
        for ct in compositions(2):
            out.append(dict(kind="metric", cx=list(cx), ct=list(ct)))
    for kind in ([(1, "X", False, False), (1, "X", True, False)] if tier == "quick" else list(itertools.product((0, 1), ("X", "Y"), (False, True), (False, True)))):
        for cf in compositions(2):
            for ct in compositions(2):
                for vector in (False, True):
                    out.append(dict(kind="faces", link=list(kind), cf=list(cf), ct=list(ct), vector=vector, cy=[2]))
    for cx in compositions(4):
        for cz in compositions(2):
            out.append(dict(kind="multi", cx=list(cx), cz=list(cz)))
    # lazy inputs that carry lazy non-index coordinates chunked differently from the data (and a grid dataset whose
    # own coordinates are lazy): accepted like in-memory inputs, nothing computed while building
    comps = compositions(4)
    for i, cx in enumerate(comps):
        out.append(dict(kind="lazycoords", cx=list(cx), ccx=list(comps[(i + 3) % len(comps)]), ct=list(compositions(2)[i % 2]), cct=list(compositions(2)[(i + 1) % 2])))
    for k in range(1, 7):
        out.append(dict(kind="chunks", k=k))
    if tier == "thorough":
        for cx in compositions(4):
            for cy in compositions(3):
                out.append(dict(kind="3d", cx=list(cx), cy=list(cy)))
    return out


def case(W, cfg):
    return {"multi": case_multi, "simple": case_simple, "metric": case_metric, "faces": case_faces, "chunks": case_chunks, "3d": case_3d, "lazycoords": case_lazycoords}[cfg["kind"]](W, cfg)


class Counter:
    """counts dask task executions (laziness witness)"""

    def __init__(self):
        from dask.callbacks import Callback
        outer = self
        self.n = 0

        class CB(Callback):
            def _pretask(self, key, dsk, state):
                outer.n += 1

        self.cb = CB()

    def __enter__(self):
        self.cb.__enter__()
        return self

    def __exit__(self, *a):
        return self.cb.__exit__(*a)


def dasked(da, chunks):
    import dask.array as dsa
    ch = tuple(tuple(chunks[d]) if d in chunks else (da.sizes[d],) for d in da.dims)
    return xr.DataArray(dsa.from_array(da.data, chunks=ch), dims=da.dims, name=da.name, coords=da.coords)


def compare(W, label, build, eager_inputs, lazy_inputs, expect_refusal=False):
    """run build(*inputs) eagerly and lazily; the lazy result must be lazy, executed nowhere before compute,
    and equal the eager result under both schedulers"""
    try:
        want = build(*eager_inputs)
    except Exception as e:  # noqa
        W.fail("eager-raises:" + label, "%s: %s" % (type(e).__name__, str(e)[:200]))
        return
    cnt = Counter()
    try:
        with cnt:
            r = build(*lazy_inputs)
    except NotImplementedError as e:
        W.require("refused-only-when-allowed:" + label, expect_refusal, "NotImplementedError: %s" % str(e)[:160])
        return
    except Exception as e:  # noqa
        W.fail("lazy-raises:%s:%s" % (type(e).__name__, label), "%s: %s" % (type(e).__name__, str(e)[:240]))
        return
    W.require("never-answered-differently:" + label, not expect_refusal, "chunked core dimension with inner/outer position was answered instead of refused")
    if expect_refusal:
        return
    W.require("is-lazy:" + label, hasattr(r.data, "dask"), "result data is %s" % type(r.data).__name__)
    W.require("no-compute-while-building:" + label, cnt.n == 0, "%d dask tasks executed before compute" % cnt.n)
    W.require("dims:" + label, tuple(r.dims) == tuple(want.dims), "%s vs eager %s" % (r.dims, want.dims))
    W.require("coords:" + label, sorted(r.coords) == sorted(want.coords) and all(np.array_equal(np.asarray(r[c].values, dtype=object), np.asarray(want[c].values, dtype=object)) for c in r.coords if c in want.coords),
              "coords %s vs eager %s" % (sorted(r.coords), sorted(want.coords)))
    if tuple(r.dims) != tuple(want.dims):
        return
    for sched, kw in (("synchronous", {}), ("threads", {"num_workers": 1 if W.sym else 4})):
        try:
            got = r.compute(scheduler=sched, **kw)
        except Exception as e:  # noqa
            W.fail("compute-raises:%s:%s" % (sched, label), "%s: %s" % (type(e).__name__, str(e)[:240]))
            continue
        W.equal("lazy=eager:%s:%s" % (sched, label), got.data, want.data, record=(sched == "synchronous"))


def case_simple(W, cfg):
    import xgcm
    frm, to, N = cfg["frm"], cfg["to"], cfg["N"]
    lay = {"center": "xc", frm: "x" + frm[0], to: "x" + to[0]}
    lay["center"] = "xc"
    coords = {d: np.arange(plen(p, N)) * 1.0 for p, d in lay.items()}
    coords["t"] = [0, 1]
    ds = xr.Dataset(coords=coords)
    a = W.data("a", (2, plen(frm, N)))
    da = xr.DataArray(a, dims=["t", lay[frm]], name="nm")
    chunked_core = len(cfg["cx"]) > 1
    for gname, gkw in (("periodic", {}), ("extend", dict(periodic=False, boundary="extend")), ("fill", dict(periodic=False, fill_value=1.5))):
        with warnings.catch_warnings():
            warnings.simplefilter("ignore")
            grid = xgcm.Grid(ds, coords={"X": lay}, autoparse_metadata=False, **gkw)
        for ct in compositions(2):
            lz = dasked(da, {"t": ct, lay[frm]: cfg["cx"]})
            for op in ("diff", "interp", "min", "max", "cumsum"):
                refuse = chunked_core and op != "cumsum" and (frm in ("inner", "outer") or to in ("inner", "outer"))
                lab = "%s:%s:%s->%s" % (gname, op, frm, to)
                compare(W, lab, lambda x, op=op: getattr(grid, op)(x, "X", to=to), (da,), (lz,), expect_refusal=refuse)


def case_lazycoords(W, cfg):
    import dask.array as dsa
    import xgcm
    N = 4
    lonc = np.arange(2 * N).reshape(2, N) * 1.5
    long_ = np.arange(2 * N).reshape(2, N) * 2.5 + 1.0
    depth = np.arange(N) * 10.0

    def dataset(lazy):
        def mk(arr, chunks):
            return dsa.from_array(arr, chunks=chunks) if lazy else arr
        ds = xr.Dataset(coords={"xc": np.arange(N) + 0.5, "xg": np.arange(N) * 1.0, "t": [0, 1]})
        return ds.assign_coords(lon_c=(("t", "xc"), mk(lonc, (tuple(cfg["cct"]), tuple(cfg["ccx"])))),
                                lon_g=(("t", "xg"), mk(long_, (tuple(cfg["cct"]), tuple(cfg["ccx"])))),
                                depth_c=(("xc",), mk(depth, (tuple(cfg["ccx"]),))))

    a = W.data("a", (2, N))
    chunked_core = len(cfg["cx"]) > 1
    grids = {}
    for lazy in (False, True):
        ds = dataset(lazy)
        with warnings.catch_warnings():
            warnings.simplefilter("ignore")
            grids[lazy] = (xgcm.Grid(ds, coords={"X": {"center": "xc", "left": "xg"}}, periodic=False, boundary="extend", autoparse_metadata=False), ds)
    eager = xr.DataArray(a, dims=["t", "xc"], name="nm", coords={k: v for k, v in grids[False][1].coords.items() if set(v.dims) <= {"t", "xc"}})
    lz = dasked(xr.DataArray(a, dims=["t", "xc"], name="nm"), {"t": cfg["ct"], "xc": cfg["cx"]})
    lz = lz.assign_coords({k: v for k, v in grids[True][1].coords.items() if set(v.dims) <= {"t", "xc"}})
    for keep in (False, True):
        for op in ("diff", "interp", "min", "cumsum"):
            lab = "lazycoords:%s:keep=%s" % (op, keep)
            compare(W, lab, lambda x, g, op=op: getattr(g, op)(x, "X", to="left", keep_coords=keep), (eager, grids[False][0]), (lz, grids[True][0]))

        def uf(x, g):
            lazy = hasattr(x.data, "dask")
            return g.apply_as_grid_ufunc(lambda y: y[..., 1:] - y[..., :-1], x, axis=[("X",)], signature="(X:center)->(X:left)", boundary_width={"X": (1, 0)},
                                         keep_coords=keep, dask=("allowed" if lazy else "forbidden"), map_overlap=(lazy and chunked_core))
        compare(W, "lazycoords:ufunc:keep=%s" % keep, uf, (eager, grids[False][0]), (lz, grids[True][0]))

        def ufk(x, g):
            # parameters of the user function given through kwargs= reach it in every execution mode
            lazy = hasattr(x.data, "dask")

            def scaled(y, scale=1.0, offset=0.0):
                return (y[..., 1:] - y[..., :-1]) * scale + offset
            return g.apply_as_grid_ufunc(scaled, x, axis=[("X",)], signature="(X:center)->(X:left)", boundary_width={"X": (1, 0)},
                                         keep_coords=keep, dask=("allowed" if (lazy and chunked_core) else ("parallelized" if lazy else "forbidden")),
                                         map_overlap=(lazy and chunked_core), kwargs={"scale": 2.5, "offset": -1.0})
        compare(W, "lazycoords:ufunc-with-kwargs:keep=%s" % keep, ufk, (eager, grids[False][0]), (lz, grids[True][0]))


def case_multi(W, cfg):
    """several axes in one call: the refusal concerns only an axis that is itself chunked and involves inner/outer"""
    import xgcm
    ds = xr.Dataset(coords={"xc": np.arange(4) + 0.5, "xg": np.arange(4) * 1.0, "zc": np.arange(2) + 0.5, "zo": np.arange(3) * 1.0, "t": [0, 1]})
    with warnings.catch_warnings():
        warnings.simplefilter("ignore")
        grid = xgcm.Grid(ds, coords={"X": {"center": "xc", "left": "xg"}, "Z": {"center": "zc", "outer": "zo"}}, periodic=["X"], boundary={"Z": "extend"}, autoparse_metadata=False)
    a = W.data("a", (2, 2, 4))
    da = xr.DataArray(a, dims=["t", "zc", "xc"], name="nm")
    lz = dasked(da, {"xc": cfg["cx"], "zc": cfg["cz"]})
    z_chunked = len(cfg["cz"]) > 1
    for op in ("diff", "interp", "cumsum"):
        for axes in (["X", "Z"], ["Z", "X"]):
            lab = "multi:%s:%s" % (op, "".join(axes))
            compare(W, lab, lambda x, op=op, axes=axes: getattr(grid, op)(x, axes, to={"X": "left", "Z": "outer"}), (da,), (lz,),
                    expect_refusal=(z_chunked and op != "cumsum"))
        compare(W, "multi:%s:X-only" % op, lambda x, op=op: getattr(grid, op)(x, "X", to="left"), (da,), (lz,))

    # a grid ufunc with two core axes, padded along one of them only
    def upwind_and_sum(x):
        d = x[..., 1:, :] - x[..., :-1, :]
        return np.cumsum(d, axis=-1) if not hasattr(d, "dask") else d.cumsum(axis=-1)

    def ufunc2(x, **kw):
        return grid.apply_as_grid_ufunc(upwind_and_sum, x, axis=[("X", "Z")], signature="(X:center,Z:center)->(X:left,Z:center)",
                                        boundary_width={"X": (1, 0)}, **kw)

    def ufunc2both(x, **kw):
        # padded along both core axes
        def f(y):
            d = y[..., 1:, :-1] - y[..., :-1, 1:]
            return d
        return grid.apply_as_grid_ufunc(f, x, axis=[("X", "Z")], signature="(X:center,Z:center)->(X:left,Z:center)",
                                        boundary_width={"X": (1, 0), "Z": (0, 1)}, **kw)

    for ct in compositions(2):
        lz2 = dasked(da, {"t": ct, "xc": cfg["cx"], "zc": [2]})
        if len(cfg["cx"]) == 1:
            compare(W, "multi:ufunc-2-core-dims-both-padded:parallelized", lambda x: ufunc2both(x, dask=("parallelized" if hasattr(x.data, "dask") else "forbidden")), (da,), (lz2,))
        if len(cfg["cx"]) == 1:
            compare(W, "multi:ufunc-2-core-dims:parallelized", lambda x: ufunc2(x, dask=("parallelized" if hasattr(x.data, "dask") else "forbidden")), (da,), (lz2,))
        compare(W, "multi:ufunc-2-core-dims:map_overlap", lambda x: ufunc2(x, dask=("allowed" if hasattr(x.data, "dask") else "forbidden"), map_overlap=hasattr(x.data, "dask")), (da,), (lz2,))

        def ufunc2rev(x, **kw):
            # widths differ per axis and the mapping lists the axes in another order than the signature
            def f(y):
                return y[..., 1:, 2:] - y[..., :-1, :-2]
            return grid.apply_as_grid_ufunc(f, x, axis=[("X", "Z")], signature="(X:center,Z:center)->(X:center,Z:center)",
                                            boundary_width={"Z": (1, 1), "X": (1, 0)}, boundary={"X": "periodic", "Z": "extend"}, **kw)
        compare(W, "multi:ufunc-2-core-dims:width-order:map_overlap", lambda x: ufunc2rev(x, dask=("allowed" if hasattr(x.data, "dask") else "forbidden"), map_overlap=hasattr(x.data, "dask")), (da,), (lz2,))


def case_metric(W, cfg):
    import xgcm
    N = 4
    coords = {"xc": np.arange(N) + 0.5, "xg": np.arange(N) * 1.0, "t": [0, 1]}
    ds = xr.Dataset(coords=coords)
    dxc = W.data("dxc", (N,), gen=lambda r: r.randint(2, 20) / 4.0)
    dxg = W.data("dxg", (N,), gen=lambda r: r.randint(2, 20) / 4.0)
    if W.sym:
        for m in list(dxc) + list(dxg):
            W.assume(m.t > 0)
    ds["dxc"] = (("xc",), dxc)
    ds["dxg"] = (("xg",), dxg)
    with warnings.catch_warnings():
        warnings.simplefilter("ignore")
        grid = xgcm.Grid(ds, coords={"X": {"center": "xc", "left": "xg"}}, periodic=False, boundary="extend",
                         metrics={("X",): ["dxc", "dxg"]}, autoparse_metadata=False)
    a = W.data("a", (2, N))
    da = xr.DataArray(a, dims=["t", "xc"], name="nm")
    lz = dasked(da, {"t": cfg["ct"], "xc": cfg["cx"]})
    chunked = len(cfg["cx"]) > 1
    compare(W, "derivative", lambda x: grid.derivative(x, "X"), (da,), (lz,))
    compare(W, "integrate", lambda x: grid.integrate(x, "X"), (da,), (lz,))
    compare(W, "average", lambda x: grid.average(x, "X"), (da,), (lz,))
    compare(W, "cumint", lambda x: grid.cumint(x, "X", to="left", boundary="fill", fill_value=0.0), (da,), (lz,))
    compare(W, "interp-metric_weighted", lambda x: grid.interp(x, "X", metric_weighted="X"), (da,), (lz,))

    def trimmed(x):
        return x[..., 1:] - x[..., :-1]

    def ufunc(x, **kw):
        return grid.apply_as_grid_ufunc(trimmed, x, axis=[("X",)], signature="(X:center)->(X:left)", boundary_width={"X": (1, 0)}, **kw)

    if not chunked:
        compare(W, "apply_as_grid_ufunc:parallelized", lambda x: ufunc(x, dask=("parallelized" if hasattr(x.data, "dask") else "forbidden")), (da,), (lz,))
    compare(W, "apply_as_grid_ufunc:map_overlap", lambda x: ufunc(x, dask=("allowed" if hasattr(x.data, "dask") else "forbidden"), map_overlap=hasattr(x.data, "dask")), (da,), (lz,))


def case_faces(W, cfg):
    import xgcm
    N = 2
    side, ax, swapped, rev = cfg["link"]
    table = make_two_face_table(side, ax, swapped, rev)
    ds = xr.Dataset(coords={"face": [0, 1], "xc": np.arange(N) + 0.5, "xg": np.arange(N) * 1.0, "yc": np.arange(N) + 0.5,
                            "yg": np.arange(N) * 1.0, "t": [0, 1]})
    with warnings.catch_warnings():
        warnings.simplefilter("ignore")
        grid = xgcm.Grid(ds, coords={"X": {"center": "xc", "left": "xg"}, "Y": {"center": "yc", "left": "yg"}}, periodic=False,
                         boundary="fill", fill_value=0.0, face_connections={"face": table}, autoparse_metadata=False)
    ch = {"face": cfg["cf"], "t": cfg["ct"], "yc": cfg["cy"], "yg": cfg["cy"]}
    if not cfg["vector"]:
        a = W.data("a", (2, 2, N, N))
        da = xr.DataArray(a, dims=["t", "face", "yc", "xc"], name="nm")
        lz = dasked(da, ch)
        for op in ("diff", "interp", "min"):
            for axn, to in (("X", "left"), ("Y", "left")):
                compare(W, "scalar:%s:%s" % (op, axn), lambda x, op=op, axn=axn, to=to: getattr(grid, op)(x, axn, to=to), (da,), (lz,))
        return
    u = W.data("u", (2, 2, N, N))
    v = W.data("v", (2, 2, N, N))
    uda = xr.DataArray(u, dims=["t", "face", "yc", "xg"], name="u")
    vda = xr.DataArray(v, dims=["t", "face", "yg", "xc"], name="v")
    ulz, vlz = dasked(uda, ch), dasked(vda, ch)
    for op in ("diff", "interp"):
        compare(W, "vector:%s:X" % op, lambda a_, b_, op=op: getattr(grid, op)({"X": a_}, "X", to="center", other_component={"Y": b_}), (uda, vda), (ulz, vlz))
        compare(W, "vector:%s:Y" % op, lambda a_, b_, op=op: getattr(grid, op)({"Y": b_}, "Y", to="center", other_component={"X": a_}), (uda, vda), (ulz, vlz))


def case_3d(W, cfg):
    import xgcm
    ds = xr.Dataset(coords={"xc": np.arange(4) + 0.5, "xg": np.arange(4) * 1.0, "yc": np.arange(3) + 0.5, "yg": np.arange(3) * 1.0, "t": [0, 1]})
    with warnings.catch_warnings():
        warnings.simplefilter("ignore")
        grid = xgcm.Grid(ds, coords={"X": {"center": "xc", "left": "xg"}, "Y": {"center": "yc", "left": "yg"}}, periodic=["X"], boundary={"Y": "extend"}, autoparse_metadata=False)
    a = W.data("a", (2, 3, 4))
    da = xr.DataArray(a, dims=["t", "yc", "xc"], name="nm")
    for ct in compositions(2):
        lz = dasked(da, {"t": ct, "yc": cfg["cy"], "xc": cfg["cx"]})
        for op in ("diff", "interp", "cumsum"):
            compare(W, "3d:%s:XY" % op, lambda x, op=op: getattr(grid, op)(x, ["X", "Y"], to="left"), (da,), (lz,))
            compare(W, "3d:%s:fill" % op, lambda x, op=op: getattr(grid, op)(x, "Y", to="left", boundary="fill", fill_value=2.5), (da,), (lz,))


class _Axis:
    def __init__(self, dim):
        self.dim = dim

    def _get_position_name(self, da):
        return "center", self.dim


class _Grid:
    axes = {"X": _Axis("x"), "Y": _Axis("y")}


class _DA:
    dims = ("x", "y")


def case_chunks(W, cfg):
    """the boundary-chunk merge arithmetic for *all* chunk sizes and widths (unbounded integers)"""
    from xgcm.grid_ufunc import _get_chunk_pattern_for_merging_boundary
    k = cfg["k"]
    W.incremental = True
    if W.sym:
        cs = [SInt(z3.Int("c%d" % i)) for i in range(k)]
        lo, hi = SInt(z3.Int("lo")), SInt(z3.Int("hi"))
        for c in cs:
            W.assume(c.t >= 1)
        W.assume(z3.And(lo.t >= 0, hi.t >= 0))
    else:
        cs = [W.integer("c%d" % i, 1, 9) for i in range(k)]
        lo, hi = W.integer("lo", 0, 4), W.integer("hi", 0, 4)
    # two padded dimensions: each must get its own pattern
    new = _get_chunk_pattern_for_merging_boundary(_Grid(), _DA(), {"x": tuple(cs), "y": (5, 7)}, {"X": (lo, hi), "Y": (2, 1)})
    W.require("chunks:every-padded-dim-has-a-pattern", set(new) == {"x", "y"} and tuple(int(v) if not isinstance(v, SInt) else v for v in new.get("y", ())) == (7, 8),
              "patterns for %s; y -> %s" % (sorted(new), new.get("y")))
    if "x" not in new:
        return
    got = new["x"]
    W.require("chunks:same-number", len(got) == k, "%d chunks for %d" % (len(got), k))
    if len(got) != k:
        return

    def t(x):
        return x.t if isinstance(x, SInt) else z3.IntVal(int(x))

    if W.sym:
        W.require("chunks:total-length", SBool(z3.Sum([t(g) for g in got]) == z3.Sum([t(c) for c in cs]) + lo.t + hi.t), "sum of new chunks != length + lo + hi")
        W.require("chunks:all-positive", SBool(z3.And([t(g) >= 1 for g in got])), "a chunk of size < 1")
        for i in range(1, k - 1):
            W.require("chunks:interior-unchanged", SBool(t(got[i]) == t(cs[i])), "interior chunk %d changed" % i)
        if k > 1:
            W.require("chunks:first-absorbs-lower", SBool(t(got[0]) == t(cs[0]) + lo.t), "first chunk")
            W.require("chunks:last-absorbs-upper", SBool(t(got[-1]) == t(cs[-1]) + hi.t), "last chunk")
    else:
        W.require("chunks:total-length", sum(got) == sum(cs) + lo + hi, "%s vs %s + %s + %s" % (got, cs, lo, hi))
        W.require("chunks:all-positive", all(g >= 1 for g in got), str(got))
        for i in range(1, k - 1):
            W.require("chunks:interior-unchanged", got[i] == cs[i], "interior chunk %d changed" % i)
        if k > 1:
            W.require("chunks:first-absorbs-lower", got[0] == cs[0] + lo, "first chunk")
            W.require("chunks:last-absorbs-upper", got[-1] == cs[-1] + hi, "last chunk")


def finding_key(cfg, v):
    if cfg.get("kind") == "faces" and cfg.get("vector") and v["label"].startswith("lazy-raises:AttributeError"):
        return "dask-vector-on-face-connected-grid-AttributeError"
    return v["label"]


if __name__ == "__main__":
    sys.exit(harness.main(sys.modules[__name__]))
