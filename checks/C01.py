"""C01 Staggered stencil operators are exact on simple grids."""
import itertools
import sys

import numpy as np
import xarray as xr

from lib import harness
from lib.grids import axis_dims, interleavings, layouts, make_ds, make_grid
from specs.stencil import OPS, apply_along, plen, spec_1d, spec_default_shift, valid_shift

ID = "C01"
FUNCTIONS = [
    "xgcm.grid:Grid._1d_grid_ufunc_dispatch", "xgcm.grid:Grid._create_1d_grid_ufunc_signatures",
    "xgcm.grid:Grid._transpose_to_keep_same_dim_order", "xgcm.grid:_select_grid_ufunc",
    "xgcm.grid:Grid.__init__", "xgcm.grid:Grid._complete_user_kwargs_using_axis_defaults",
    "xgcm.grid_ufunc:apply_as_grid_ufunc", "xgcm.grid_ufunc:_pad_then_rechunk", "xgcm.grid_ufunc:_apply",
    "xgcm.grid_ufunc:_reattach_coords", "xgcm.grid_ufunc:GridUFunc.__call__",
    "xgcm.padding:pad", "xgcm.padding:_pad_basic", "xgcm.axis:Axis.__init__", "xgcm.axis:Axis._get_position_name",
    "xgcm.gridops:diff_forward", "xgcm.gridops:interp_forward", "xgcm.gridops:pairwise_forward_min",
    "xgcm.gridops:pairwise_forward_max",
] + ["xgcm.gridops:%s_%s" % (op, sh) for op in ("diff", "interp", "min", "max") for sh in (
    "center_to_left", "left_to_center", "center_to_right", "right_to_center", "center_to_outer", "outer_to_center",
    "center_to_inner", "inner_to_center")]
BOUNDS = {
    "quick": {"N": [2, 3], "layouts": "all 16 position subsets containing center", "extra_dims": "0 or 1 (size 2), every interleaving",
              "axes": "1 axis (all shifts, all operators, rules per call and as grid default; built-in default shifts and every user default_shifts entry for centre data); 2 axes in both orders",
              "data": "all real values (symbolic)", "fill_value": "per call: symbolic; grid default: concrete 0 / 2.5"},
    "thorough": {"N": [2, 3, 4, 5], "layouts": "all 16", "extra_dims": "0..3 (sizes 1-2), every interleaving (N=5: 0..1)",
                 "axes": "1, 2 and 3 axes in every order", "data": "all real values (symbolic)",
                 "fill_value": "per call: symbolic; grid default: concrete 0 / 2.5"},
}
OUTSIDE = ["N > 5", "more than 3 extra dimensions", "floating-point rounding/overflow", "NaN/inf data",
           "symbolic grid-level default fill value (Axis insists on int|float)"]
ASSUMPTIONS = ["input data finite"]
SWEEPS = {"int64": 3}


def sweep_applies(cfg, flavor):
    # a non-integer grid-level fill value cannot be represented in integer data (numpy casts it): not swept
    return cfg.get("gmode") != "fill25"


# grid modes: (name, ctor kwargs, rule in force without per-call argument, fill in force)
GMODES = {
    "periodic": (dict(), "periodic", 0.0),
    "nonper": (dict(periodic=False), "fill", 0.0),
    "extendgrid": (dict(periodic=False, boundary="extend"), "extend", 0.0),
    "fill25": (dict(periodic=False, boundary="fill", fill_value=2.5), "fill", 2.5),
    "bperiodic": (dict(periodic=False, boundary="periodic"), "periodic", 0.0),
}
CALL_RULES_FULL = [None, "fill+fv", "fill+fvdict", "fill", "extend", "periodic", "fvonly"]
CALL_RULES_LIGHT = [None, "fill+fv"]


def cases(tier):
    out = []
    Ns = [2, 3] if tier == "quick" else [2, 3, 4, 5]
    for N in Ns:
        for layout in layouts():
            for gm in GMODES:
                extras = [[], [["t", 2]]] if tier == "quick" else [[], [["t", 2]], [["t", 1], ["s", 2]], [["t", 2], ["s", 1], ["r", 2]]]
                if tier == "thorough" and N == 5:
                    extras = extras[:2]
                for extra in extras:
                    n_orders = len(interleavings(["x"], [e[0] for e in extra]))
                    for oi in range(n_orders):
                        out.append(dict(kind="1ax", N=N, layout=list(layout), gmode=gm, extra=extra, order=oi))
    # user-documented default shifts given to the Grid (default_shifts={'X': {...}}): omitted `to` follows them
    for N in Ns[:2]:
        for layout in layouts():
            nc = [q for q in layout if q != "center"]
            if len(nc) < 2:
                continue
            for q in nc:
                for gm in ("periodic", "fill25"):
                    out.append(dict(kind="dshift", N=N, layout=list(layout), gmode=gm, center_to=q))
    # multi-axis
    two = [(("center", "left"), ("center", "outer")), (("center", "right", "inner"), ("center", "left", "right")),
           (("center", "outer", "inner"), ("center", "right"))]
    if tier == "thorough":
        two = two + [(("center", "left", "right", "inner", "outer"), ("center", "inner")), (("center", "outer"), ("center", "left", "right", "inner", "outer")),
                     (("center", "inner", "right"), ("center", "outer", "left"))]
    for N in ([2, 3] if tier == "quick" else [2, 3, 4]):
        for lx, ly in two:
            for gm in ("periodic", "fill25", "nonper"):
                for axorder in (["X", "Y"], ["Y", "X"]):
                    for extra in ([[], [["t", 2]]]):
                        for oi in range(len(interleavings(["y", "x"], [e[0] for e in extra]))):
                            for swap in (0, 1):
                                out.append(dict(kind="2ax", N=N, lx=list(lx), ly=list(ly), gmode=gm, axorder=axorder,
                                                extra=extra, order=oi, swap=swap))
    if tier == "thorough":
        for N in (2, 3):
            for gm in ("periodic", "fill25"):
                for axorder in itertools.permutations(["X", "Y", "Z"]):
                    for dorder in ([0, 1, 2], [2, 0, 1], [1, 2, 0]):
                        out.append(dict(kind="3ax", N=N, gmode=gm, axorder=list(axorder), dorder=dorder))
    return out


def _kwargs(W, call_rule, tag="fv"):
    """per-call kwargs, and the (rule, fill) they put in force (None -> grid default)"""
    kw = {}
    rule = fill = None
    if call_rule == "fill+fv":
        fv = W.scalar(tag)
        kw = dict(boundary="fill", fill_value=fv)
        rule, fill = "fill", fv
    elif call_rule == "fill+fvdict":
        # per-axis mapping spelling of the same choice (any value of the fill, zero included)
        fv = W.scalar(tag)
        kw = dict(boundary={"X": "fill"}, fill_value={"X": fv})
        rule, fill = "fill", fv
    elif call_rule == "fvonly":
        # a fill value alone does not choose the rule: the grid's rule stays in force and uses this value if it is 'fill'
        fv = W.scalar(tag)
        kw = dict(fill_value=fv)
        rule, fill = None, fv
    elif call_rule == "fill":
        kw = dict(boundary="fill")
        rule = "fill"
    elif call_rule in ("extend", "periodic"):
        kw = dict(boundary=call_rule)
        rule = call_rule
    return kw, rule, fill


def case(W, cfg):
    if cfg["kind"] == "1ax":
        return case_1ax(W, cfg)
    if cfg["kind"] == "2ax":
        return case_2ax(W, cfg)
    if cfg["kind"] == "dshift":
        return case_dshift(W, cfg)
    return case_3ax(W, cfg)


def case_1ax(W, cfg):
    N, layout, gm = cfg["N"], tuple(cfg["layout"]), cfg["gmode"]
    gkw, grule, gfill = GMODES[gm]
    axes = {"X": layout}
    extra = {e[0]: e[1] for e in cfg["extra"]}
    ds = make_ds(axes, N, extra)
    grid = make_grid(ds, axes, **gkw)
    dims = axis_dims("X", layout)
    call_rules = CALL_RULES_FULL if gm in ("periodic", "fill25") else CALL_RULES_LIGHT
    for frm in layout:
        order = interleavings([dims[frm]], list(extra))[cfg["order"]]
        shape = [extra[d] if d in extra else plen(frm, N) for d in order]
        a = W.data("a", shape)
        da = xr.DataArray(a, dims=order, name="nm")
        ax_i = order.index(dims[frm])
        targets = [p for p in layout if valid_shift(frm, p)]
        for to in targets + [None]:
            eff_to = to if to is not None else spec_default_shift(frm, layout)
            if eff_to is None:
                continue
            for cr in call_rules:
                kw, rule, fill = _kwargs(W, cr)
                rule = rule or grule
                fill = gfill if fill is None else fill
                if to is not None:
                    kw["to"] = to
                for oi_, op in enumerate(OPS):
                    lab = "%s:%s->%s:%s" % (op, frm, to, cr)
                    # values never depend on keep_coords (alternated over the operators)
                    r = getattr(grid, op)(da, "X", **kw, **({"keep_coords": True} if (oi_ + N) % 2 else {}))
                    exp_dims = tuple(dims[eff_to] if d == dims[frm] else d for d in order)
                    W.require("dims:" + lab, tuple(r.dims) == exp_dims, "dims %s want %s" % (r.dims, exp_dims))
                    if tuple(r.dims) != exp_dims:
                        continue
                    want = apply_along(a, ax_i, lambda v: spec_1d(v, frm, eff_to, N, op, rule, fill))
                    W.equal("value:" + lab, r.data, want)
                    if op == "interp" and to is not None and (N + len(order)) % 2 == 0:
                        # interp_like is a second public route to the same stencil: the target position is the template's,
                        # the rule and fill value in force are resolved exactly as for interp
                        like = xr.DataArray(np.zeros(plen(to, N)), dims=[dims[to]])
                        kw2 = {k: v for k, v in kw.items() if k != "to"}
                        try:
                            r2 = grid.interp_like(da, like, **kw2)
                            W.require("interp_like-dims:" + lab, tuple(r2.dims) == exp_dims, "dims %s want %s" % (r2.dims, exp_dims))
                            if tuple(r2.dims) == exp_dims:
                                W.equal("interp_like-value:" + lab, r2.data, want, record=False)
                        except Exception as e:  # noqa
                            W.fail("interp_like-raises:" + lab, "%s: %s" % (type(e).__name__, str(e)[:160]))


def case_dshift(W, cfg):
    """Grid(default_shifts={'X': {'center': q}}): the documented default for centre data is q; positions the user
    mapping does not name keep the built-in table"""
    N, layout, gm, q = cfg["N"], tuple(cfg["layout"]), cfg["gmode"], cfg["center_to"]
    gkw, grule, gfill = GMODES[gm]
    axes = {"X": layout}
    ds = make_ds(axes, N, {"t": 2})
    grid = make_grid(ds, axes, default_shifts={"X": {"center": q}}, **gkw)
    dims = axis_dims("X", layout)
    for frm in layout:
        eff_to = q if frm == "center" else spec_default_shift(frm, layout)
        order = [dims[frm], "t"]
        a = W.data("a", [plen(frm, N), 2])
        da = xr.DataArray(a, dims=order)
        for op in OPS:
            for variant in ("default", "percall"):
                kw, rule, fill = ({}, grule, gfill) if variant == "default" else _kwargs(W, "fill+fv")
                lab = "%s:%s->default(%s):%s" % (op, frm, eff_to, variant)
                r = getattr(grid, op)(da, "X", **kw)
                exp_dims = (dims[eff_to], "t")
                W.require("dshift-dims:" + lab, tuple(r.dims) == exp_dims, "dims %s want %s" % (r.dims, exp_dims))
                if tuple(r.dims) != exp_dims:
                    continue
                want = apply_along(a, 0, lambda v: spec_1d(v, frm, eff_to, N, op, rule, fill))
                W.equal("dshift-value:" + lab, r.data, want)
        if frm == "center":
            r = grid.cumsum(da, "X", boundary="fill", fill_value=0.0)
            W.require("dshift-cumsum-dims", tuple(r.dims) == (dims[q], "t"), str(r.dims))


TWO_SHIFTS = {  # (from, to) per axis used in the multi-axis cases
    0: ("center", None), 1: (None, "center"),
}


def _pick_shift(layout, k):
    """k-th valid (from,to) pair of the layout"""
    pairs = [(f, t) for f in layout for t in layout if valid_shift(f, t)]
    return pairs[k % len(pairs)]


def case_2ax(W, cfg):
    N, gm = cfg["N"], cfg["gmode"]
    gkw, grule, gfill = GMODES[gm]
    axes = {"X": tuple(cfg["lx"]), "Y": tuple(cfg["ly"])}
    extra = {e[0]: e[1] for e in cfg["extra"]}
    ds = make_ds(axes, {"X": N, "Y": N + 1}, extra)
    grid = make_grid(ds, axes, **gkw)
    n = {"X": N, "Y": N + 1}
    npairs = {ax: len([(f, t) for f in axes[ax] for t in axes[ax] if valid_shift(f, t)]) for ax in axes}
    for kx, ky in itertools.product(range(npairs["X"]), range(npairs["Y"])):
        if (kx + ky + cfg["swap"]) % 2:  # half of the shift pairs per case (the other half in the swap twin)
            continue
        sh = {"X": _pick_shift(axes["X"], kx), "Y": _pick_shift(axes["Y"], ky)}
        dn = {ax: axis_dims(ax, axes[ax]) for ax in axes}
        core = [dn["Y"][sh["Y"][0]], dn["X"][sh["X"][0]]]
        order = interleavings(core, list(extra))[cfg["order"]]
        shape = [extra[d] if d in extra else (plen(sh["Y"][0], n["Y"]) if d == core[0] else plen(sh["X"][0], n["X"])) for d in order]
        a = W.data("a", shape)
        da = xr.DataArray(a, dims=order)
        for op in OPS:
            for variant in ("default", "percall", "partial-x", "partial-y"):
                if variant == "default":
                    kw = {}
                    rule = {"X": grule, "Y": grule}
                    fill = {"X": gfill, "Y": gfill}
                elif variant == "partial-x":
                    # per-call mappings that name only some axes: the others keep the grid's rule and fill value
                    fy = W.scalar("fy")
                    kw = dict(boundary={"X": "extend"}, fill_value={"Y": fy})
                    rule = {"X": "extend", "Y": grule}
                    fill = {"X": gfill, "Y": fy}
                elif variant == "partial-y":
                    fy = W.scalar("fy")
                    kw = dict(boundary={"Y": "fill"}, fill_value={"Y": fy})
                    rule = {"X": grule, "Y": "fill"}
                    fill = {"X": gfill, "Y": fy}
                else:
                    fx = W.scalar("fx")
                    kw = dict(boundary={"X": "fill", "Y": "extend"}, fill_value={"X": fx})
                    rule = {"X": "fill", "Y": "extend"}
                    fill = {"X": fx, "Y": gfill}
                kw["to"] = {ax: sh[ax][1] for ax in axes}
                lab = "%s:%s:%s:%s" % (op, sh["X"], sh["Y"], variant)
                # "several axes" may be named by a list or by a tuple
                r = getattr(grid, op)(da, tuple(cfg["axorder"]) if cfg["swap"] else list(cfg["axorder"]), **kw)
                cur = a
                cur_dims = list(order)
                for ax in cfg["axorder"]:
                    frm, to = sh[ax]
                    i = cur_dims.index(dn[ax][frm])
                    cur = apply_along(cur, i, lambda v, ax=ax, frm=frm, to=to: spec_1d(v, frm, to, n[ax], op, rule[ax], fill[ax]))
                    cur_dims[i] = dn[ax][to]
                W.require("dims2:" + lab, tuple(r.dims) == tuple(cur_dims), "dims %s want %s" % (r.dims, cur_dims))
                if tuple(r.dims) == tuple(cur_dims):
                    W.equal("value2:" + lab, r.data, cur)


def case_3ax(W, cfg):
    N, gm = cfg["N"], cfg["gmode"]
    gkw, grule, gfill = GMODES[gm]
    axes = {"X": ("center", "left"), "Y": ("center", "outer"), "Z": ("center", "right", "inner")}
    n = {"X": N, "Y": N, "Z": N + 1}
    ds = make_ds(axes, n)
    grid = make_grid(ds, axes, **gkw)
    dn = {ax: axis_dims(ax, axes[ax]) for ax in axes}
    for shifts in ({"X": ("center", "left"), "Y": ("center", "outer"), "Z": ("center", "inner")},
                   {"X": ("left", "center"), "Y": ("outer", "center"), "Z": ("right", "center")},
                   {"X": ("center", None), "Y": ("outer", None), "Z": ("center", "right")}):
        core = [dn[ax][shifts[ax][0]] for ax in ("Z", "Y", "X")]
        order = [core[i] for i in cfg["dorder"]]
        a = W.data("a", [ds.sizes[d] for d in order])
        da = xr.DataArray(a, dims=order)
        for op in OPS:
            fz = W.scalar("fz")
            # a total per-axis mapping; None = "use the default shift" (the statement says nothing about mappings
            # of `to` that name only some axes, so none is passed)
            to = {ax: shifts[ax][1] for ax in axes}
            r = getattr(grid, op)(da, cfg["axorder"], to=to, boundary={"Z": "fill"}, fill_value={"Z": fz})
            cur, cur_dims = a, list(order)
            for ax in cfg["axorder"]:
                frm, t = shifts[ax]
                t = t or spec_default_shift(frm, axes[ax])
                rule = "fill" if ax == "Z" else grule
                fill = fz if ax == "Z" else gfill
                i = cur_dims.index(dn[ax][frm])
                cur = apply_along(cur, i, lambda v, ax=ax, frm=frm, t=t, rule=rule, fill=fill: spec_1d(v, frm, t, n[ax], op, rule, fill))
                cur_dims[i] = dn[ax][t]
            lab = "%s:%s" % (op, sorted(shifts.items()))
            W.require("dims3:" + lab, tuple(r.dims) == tuple(cur_dims), "dims %s want %s" % (r.dims, cur_dims))
            if tuple(r.dims) == tuple(cur_dims):
                W.equal("value3:" + lab, r.data, cur)


if __name__ == "__main__":
    sys.exit(harness.main(sys.modules[__name__]))
