"""C14 Metadata autoparsing recovers exactly the topology the conventions prescribe."""
import builtins
import itertools
import sys
import warnings

import numpy as np
import xarray as xr
import z3

from lib import harness
from sx.core import SBool, SInt
from specs.stencil import plen

ID = "C14"
FUNCTIONS = ["xgcm.metadata_parsers:parse_metadata", "xgcm.metadata_parsers:parse_comodo", "xgcm.metadata_parsers:parse_sgrid",
             "xgcm.comodo:get_all_axes", "xgcm.comodo:get_axis_coords", "xgcm.comodo:get_axis_positions_and_coords",
             "xgcm.sgrid:assert_valid_sgrid", "xgcm.sgrid:get_sgrid_grid", "xgcm.sgrid:get_all_axes", "xgcm.sgrid:get_axis_positions_and_coords",
             "xgcm.grid:Grid.__init__"]
BOUNDS = {
    "quick": {"COMODO decision table, lengths symbolic": "centre length n in 1..8, up to 3 further coordinates with lengths in 0..n+2 (symbolic Int through an injected len), every assignment of c_grid_axis_shift in {-0.5, +0.5}; plus zero / two unshifted coordinates",
              "COMODO end to end": "1-3 axes, every position set, n in {1,2,3}, both shift signs on inner/outer, 2 dim orders; Grid(ds) vs Grid(ds, coords=explicit) on symbolic data",
              "SGRID (strings: explored)": "1-D, 2-D, 2-D+vertical, 3-D x 4 padding words per axis x with/without space after ':' x 3 name sets; SGRID chosen iff declared; coords conflict rejected"},
    "thorough": {"COMODO decision table": "n in 1..12, up to 4 further coordinates", "COMODO end to end": "n in 1..4"},
}
OUTSIDE = ["c_grid_axis_shift values other than absent / -0.5 / +0.5", "two coordinates of one axis resolving to the same position (the table does not say which wins)",
           "SGRID attribute grammars beyond the statement (edge/face-i dimensions)", "SGRID strings are explored, not solver-decided"]
ASSUMPTIONS = ["data finite"]
POSCODE = {"outer": 1, "inner": 2, "left": 3, "right": 4, "ERROR": 0}
MAX_PATHS = 100000


def cases(tier):
    out = []
    for k in range(0, 4 if tier == "quick" else 5):
        for shifts in itertools.product((-0.5, 0.5), repeat=k):
            out.append(dict(kind="table", shifts=list(shifts), nmax=8 if tier == "quick" else 12, centers=1))
    out.append(dict(kind="table", shifts=[-0.5], nmax=8, centers=0))
    out.append(dict(kind="table", shifts=[0.5], nmax=8, centers=2))
    possets = []
    for k in range(0, 5):
        for extra in itertools.combinations(["left", "right", "inner", "outer"], k):
            possets.append(("center",) + extra)
    for n in ([1, 2, 3] if tier == "quick" else [1, 2, 3, 4]):
        for ps in possets:
            for sign in (-0.5, 0.5):
                out.append(dict(kind="comodo", axes={"X": list(ps)}, n=n, io_sign=sign, order=0))
        for ps1, ps2 in itertools.product(possets[1::3], possets[2::4]):
            out.append(dict(kind="comodo", axes={"X": list(ps1), "Y": list(ps2)}, n=n, io_sign=-0.5, order=n % 2))
        for ps in possets[3::5]:
            out.append(dict(kind="comodo", axes={"Z": list(ps), "X": ["center", "left"], "Y": ["center", "outer"]}, n=n, io_sign=0.5, order=1))
    pads = ["low", "high", "both", "none"]
    for topo in ("1d", "2d", "2dv", "3d"):
        nax = {"1d": 1, "2d": 2, "2dv": 3, "3d": 3}[topo]
        for ps in itertools.product(pads, repeat=nax):
            for space in (True, False):
                for ns in range(3):
                    if nax == 3 and ns != (pads.index(ps[0]) + pads.index(ps[1])) % 3:
                        continue
                    out.append(dict(kind="sgrid", topo=topo, pads=list(ps), space=space, names=ns))
    out.append(dict(kind="hierarchy"))
    return out


def case(W, cfg):
    return {"table": case_table, "comodo": case_comodo, "sgrid": case_sgrid, "hierarchy": case_hierarchy}[cfg["kind"]](W, cfg)


# ------------------------------------------------------- COMODO table, symbolic lengths
class _Coord:
    def __init__(self, attrs, length):
        self.attrs, self._len = attrs, length


class _DS:
    def __init__(self, coords):
        self._c = coords
        self.dims = list(coords)

    def __getitem__(self, k):
        return self._c[k]


def _len(x):
    if isinstance(x, _Coord):
        return x._len
    return builtins.len(x)


def case_table(W, cfg):
    import xgcm.comodo as comodo
    shifts = cfg["shifts"]
    n = W.integer("n", 1, cfg["nmax"])
    coords = {}
    names = []
    for c in range(cfg["centers"]):
        nm = "c%d" % c
        coords[nm] = _Coord({"axis": "X"}, n if c == 0 else W.integer("nc%d" % c, 0, cfg["nmax"] + 2))
    lens = []
    for i, s in enumerate(shifts):
        L = W.integer("L%d" % i, 0, cfg["nmax"] + 2)
        if W.sym:
            W.assume(L.t <= n.t + 2)
        else:
            W.assume(L <= n + 2)
        nm = "g%d" % i
        names.append(nm)
        lens.append(L)
        coords[nm] = _Coord({"axis": "X", "c_grid_axis_shift": s}, L)
    coords["other"] = _Coord({"axis": "Q"}, 5)
    ds = _DS(coords)
    had = comodo.__dict__.get("len")
    comodo.__dict__["len"] = _len
    try:
        try:
            res = comodo.get_axis_positions_and_coords(ds, "X")
            err = None
        except ValueError as e:
            res, err = None, "ValueError"
        except Exception as e:  # noqa
            res, err = None, type(e).__name__
    finally:
        if had is None:
            comodo.__dict__.pop("len", None)
        else:
            comodo.__dict__["len"] = had
    if cfg["centers"] != 1:
        W.require("table:exactly-one-centre-required", err == "ValueError", "got %s" % (err or dict(res)))
        return

    def t(x):
        return x.t if isinstance(x, SInt) else z3.IntVal(int(x))

    # specification as a case analysis on the lengths
    def code_of(L, s):
        if W.sym:
            return z3.If(t(L) == t(n) + 1, POSCODE["outer"], z3.If(t(L) == t(n) - 1, POSCODE["inner"],
                         z3.If(t(L) == t(n), POSCODE["left"] if s < 0 else POSCODE["right"], POSCODE["ERROR"])))
        return POSCODE["outer"] if L == n + 1 else POSCODE["inner"] if L == n - 1 else (POSCODE["left"] if s < 0 else POSCODE["right"]) if L == n else 0

    codes = [code_of(L, s) for L, s in zip(lens, shifts)]
    if W.sym:
        anyerr = z3.Or([c == 0 for c in codes]) if codes else z3.BoolVal(False)
        distinct = z3.Distinct(*codes) if len(codes) > 1 else z3.BoolVal(True)
        if err is not None:
            W.require("table:error-iff-incompatible-length", SBool(z3.Implies(distinct, anyerr)), "raised %s although every coordinate has a table entry" % err)
        else:
            W.require("table:error-iff-incompatible-length", SBool(z3.Not(anyerr)), "returned %s although some coordinate has no table entry" % dict(res))
            W.require("table:centre", res.get("center") == "c0", str(dict(res)))
            inv = {v: k for k, v in res.items()}
            for nm, c in zip(names, codes):
                got = POSCODE.get(inv.get(nm, "ERROR"), 0)
                W.require("table:position", SBool(z3.Implies(distinct, c == got)), "coordinate %s parsed as %s" % (nm, inv.get(nm)))
    else:
        anyerr = any(c == 0 for c in codes)
        distinct = len(set(codes)) == len(codes)
        if not distinct:
            W.record("table:outcome", [err or "ok"])
            return
        if err is not None:
            W.require("table:error-iff-incompatible-length", anyerr, "raised %s for lengths n=%s %s shifts %s" % (err, n, lens, shifts))
        else:
            W.require("table:error-iff-incompatible-length", not anyerr, "returned %s for lengths n=%s %s" % (dict(res), n, lens))
            inv = {v: k for k, v in res.items()}
            for nm, c in zip(names, codes):
                W.require("table:position", POSCODE.get(inv.get(nm, "ERROR"), 0) == c, "coordinate %s parsed as %s, lengths n=%s %s" % (nm, inv.get(nm), n, lens))
    W.record("table:outcome", [err or "ok"])


# ------------------------------------------------------------ COMODO end to end
def comodo_ds(axes, n, io_sign, names=None):
    coords = {}
    explicit = {}
    for ax, ps in axes.items():
        explicit[ax] = {}
        for p in ps:
            d = (names or {}).get((ax, p), "%s_%s" % (ax.lower(), p))
            attrs = {"axis": ax}
            if p == "left":
                attrs["c_grid_axis_shift"] = -0.5
            elif p == "right":
                attrs["c_grid_axis_shift"] = 0.5
            elif p in ("inner", "outer"):
                attrs["c_grid_axis_shift"] = io_sign
            L = plen(p, n)
            coords[d] = xr.DataArray(np.arange(L) * 1.0, dims=[d], attrs=attrs)
            explicit[ax][p] = d
    coords["time"] = xr.DataArray([0, 1], dims=["time"])
    return xr.Dataset(coords=coords), explicit


def attempt(fn):
    try:
        return fn()
    except Exception as e:  # noqa
        return "raises " + type(e).__name__


def case_comodo(W, cfg):
    import xgcm
    axes, n = cfg["axes"], cfg["n"]
    ds, explicit = comodo_ds(axes, n, cfg["io_sign"])
    with warnings.catch_warnings():
        warnings.simplefilter("ignore")
        try:
            grid = xgcm.Grid(ds, periodic=False, boundary="extend")
        except Exception as e:  # noqa
            W.fail("comodo:grid-raises:%s" % type(e).__name__, "%s: %s" % (type(e).__name__, str(e)[:200]))
            return
        ref = xgcm.Grid(ds, coords=explicit, periodic=False, boundary="extend", autoparse_metadata=False)
    W.require("comodo:axes", set(grid.axes) == set(axes), "axes %s want %s" % (list(grid.axes), list(axes)))
    for ax in axes:
        if ax in grid.axes:
            W.require("comodo:positions", dict(grid.axes[ax].coords) == explicit[ax], "axis %s: %s want %s" % (ax, dict(grid.axes[ax].coords), explicit[ax]))
    if set(grid.axes) != set(axes):
        return
    order = [explicit[ax]["center"] for ax in sorted(axes)]
    if cfg["order"]:
        order = order[::-1]
    dims = ["time"] + order
    a = W.data("a", [ds.sizes[d] for d in dims])
    da = xr.DataArray(a, dims=dims)
    for ax in sorted(axes):
        for to in [p for p in axes[ax] if p != "center"][:2]:
            for op in ("diff", "interp", "cumsum"):
                if n == 1 and to == "inner":
                    continue
                r1, r2 = attempt(lambda: getattr(grid, op)(da, ax, to=to)), attempt(lambda: getattr(ref, op)(da, ax, to=to))
                if isinstance(r1, str) or isinstance(r2, str):
                    W.require("comodo:same-outcome-as-explicit-grid", r1 == r2 if isinstance(r1, str) and isinstance(r2, str) else False, "%s vs %s" % (r1 if isinstance(r1, str) else "value", r2 if isinstance(r2, str) else "value"))
                    continue
                W.require("comodo:same-dims-as-explicit-grid", tuple(r1.dims) == tuple(r2.dims), "%s vs %s" % (r1.dims, r2.dims))
                W.equal("comodo:same-result-as-explicit-grid:%s" % op, r1.data, r2.data)


# ------------------------------------------------------------------------ SGRID
PAD2POS = {"high": "left", "low": "right", "both": "inner", "none": "outer"}
NAMESETS = [
    {"X": ("xi_rho", "xi_psi"), "Y": ("eta_rho", "eta_psi"), "Z": ("s_rho", "s_w")},
    {"X": ("xc", "x"), "Y": ("yc", "y"), "Z": ("zc", "z")},
    {"X": ("i", "in"), "Y": ("nodes_j", "j"), "Z": ("padding", "pad")},
]


def sgrid_ds(topo, pads, space, ns, n=3, extra_attrs=True):
    axes = {"1d": ["X"], "2d": ["X", "Y"], "2dv": ["X", "Y", "Z"], "3d": ["X", "Y", "Z"]}[topo]
    names = NAMESETS[ns]
    coords, explicit = {}, {}
    for ax, pw in zip(axes, pads):
        cell, node = names[ax]
        pos = PAD2POS[pw]
        coords[cell] = np.arange(n) + 0.5
        coords[node] = np.arange(plen(pos, n)) * 1.0
        explicit[ax] = {"center": cell, pos: node}
    ds = xr.Dataset(coords=coords)
    sep = ": " if space else ":"

    def entry(ax, pw):
        cell, node = names[ax]
        return "%s%s%s (padding%s%s)" % (cell, sep, node, sep, pw)

    horiz = axes if topo in ("1d", "2d", "3d") else axes[:2]
    attrs = {"cf_role": "grid_topology", "topology_dimension": {"1d": 1, "2d": 2, "2dv": 2, "3d": 3}[topo],
             "node_dimensions": " ".join(names[ax][1] for ax in horiz)}
    cells = " ".join(entry(ax, pw) for ax, pw in zip(horiz, pads))
    if topo == "3d":
        attrs["volume_dimensions"] = cells
    else:
        attrs["face_dimensions"] = cells
    if topo == "2dv":
        attrs["vertical_dimensions"] = entry("Z", pads[2])
    ds["grid"] = xr.DataArray(0, attrs=attrs)
    ds.attrs["Conventions"] = "CF-1.6, SGRID-0.3"
    return ds, explicit


def case_sgrid(W, cfg):
    import xgcm
    ds, explicit = sgrid_ds(cfg["topo"], cfg["pads"], cfg["space"], cfg["names"])
    with warnings.catch_warnings():
        warnings.simplefilter("ignore")
        try:
            grid = xgcm.Grid(ds, periodic=False, boundary="extend")
        except Exception as e:  # noqa
            W.fail("sgrid:grid-raises:%s" % type(e).__name__, "%s: %s" % (type(e).__name__, str(e)[:200]))
            return
        ref = xgcm.Grid(ds, coords=explicit, periodic=False, boundary="extend", autoparse_metadata=False)
    W.require("sgrid:axes", set(grid.axes) == set(explicit), "axes %s want %s" % (list(grid.axes), list(explicit)))
    for ax in explicit:
        if ax in grid.axes:
            W.require("sgrid:positions", dict(grid.axes[ax].coords) == explicit[ax], "axis %s: %s want %s" % (ax, dict(grid.axes[ax].coords), explicit[ax]))
    if set(grid.axes) != set(explicit) or any(dict(grid.axes[ax].coords) != explicit[ax] for ax in explicit):
        return
    dims = [explicit[ax]["center"] for ax in sorted(explicit)][::-1]
    a = W.data("a", [ds.sizes[d] for d in dims])
    da = xr.DataArray(a, dims=dims)
    for ax in sorted(explicit):
        to = [p for p in explicit[ax] if p != "center"][0]
        for op in ("diff", "cumsum"):
            r1 = getattr(grid, op)(da, ax, to=to)
            r2 = getattr(ref, op)(da, ax, to=to)
            W.require("sgrid:same-dims-as-explicit-grid", tuple(r1.dims) == tuple(r2.dims), "%s vs %s" % (r1.dims, r2.dims))
            W.equal("sgrid:same-result-as-explicit-grid:%s" % op, r1.data, r2.data)


def case_hierarchy(W, cfg):
    """SGRID is used when the dataset declares it, COMODO otherwise; user coords + parsed coords are rejected"""
    import xgcm
    ds_s, ex_s = sgrid_ds("2d", ["none", "high"], True, 1)
    # the same dataset also carries (contradictory) COMODO attributes
    both = ds_s.copy()
    both["xc"].attrs.update({"axis": "Q"})
    both["x"].attrs.update({"axis": "Q", "c_grid_axis_shift": -0.5})
    with warnings.catch_warnings():
        warnings.simplefilter("ignore")
        g = xgcm.Grid(both, periodic=False)
        W.require("hierarchy:sgrid-when-declared", set(g.axes) == {"X", "Y"} and dict(g.axes["X"].coords) == ex_s["X"], str({k: dict(v.coords) for k, v in g.axes.items()}))
        undeclared = both.copy()
        undeclared.attrs = {}
        g2 = xgcm.Grid(undeclared, periodic=False)
        W.require("hierarchy:comodo-otherwise", set(g2.axes) == {"Q"}, str(list(g2.axes)))
        for conv in ("SGRID-0.3", "sgrid", "CF-1.0, Sgrid"):
            d3 = both.copy()
            d3.attrs = {"conventions" if conv == "sgrid" else "Conventions": conv}
            g3 = xgcm.Grid(d3, periodic=False)
            W.require("hierarchy:sgrid-when-declared", set(g3.axes) == {"X", "Y"}, "%s -> %s" % (conv, list(g3.axes)))
        ds_c, ex_c = comodo_ds({"X": ["center", "left"]}, 3, -0.5)
        for dsx, ex in ((ds_c, ex_c), (ds_s, ex_s)):
            # user coords of any kind together with parsed ones: the same mapping, one parsed axis only, an axis the
            # metadata does not describe (on an unannotated dimension), or a mix of both
            dsq = dsx.assign_coords(qdim=("qdim", [0.0, 1.0, 2.0]))
            first = sorted(ex)[0]
            user_variants = {"same": ex, "one-parsed-axis": {first: ex[first]}, "disjoint-axis": {"Q2": {"center": "qdim"}},
                             "overlapping": {first: ex[first], "Q2": {"center": "qdim"}}}
            for vname, uc in user_variants.items():
                try:
                    gm = xgcm.Grid(dsq, coords=uc, periodic=False)
                    W.require("hierarchy:coords-conflict-rejected", False, "user coords (%s) %s combined with parsed ones into %s" % (vname, uc, {k: dict(v.coords) for k, v in gm.axes.items()}))
                except ValueError:
                    W.require("hierarchy:coords-conflict-rejected", True)
                except Exception as e:  # noqa
                    W.require("hierarchy:coords-conflict-rejected", False, "user coords (%s): %s instead of ValueError" % (vname, type(e).__name__))
            ga = xgcm.Grid(dsx, coords=ex, periodic=False, autoparse_metadata=False)
            W.require("hierarchy:explicit-only-accepted", set(ga.axes) == set(ex), str(list(ga.axes)))
        # nothing to parse and no coords
        try:
            xgcm.Grid(xr.Dataset(coords={"q": [0, 1]}), periodic=False)
            W.require("hierarchy:no-axes-accepted-or-rejected", True)
        except ValueError:
            W.require("hierarchy:no-axes-accepted-or-rejected", True)


if __name__ == "__main__":
    sys.exit(harness.main(sys.modules[__name__]))
