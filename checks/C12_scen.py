"""Scenarios of C12: run(cfg, mk) -> list of (tag, value) where value is a flat list of numbers/terms or a
plain python value.  The same function is run in-process on symbolic data with nondeterministic sets and in
fresh interpreters under real PYTHONHASHSEEDs (``python -m checks.C12_scen``)."""
import itertools
import json
import sys
import warnings

import numpy as np
import xarray as xr


def table_2x2(perm_faces=None, perm_axes=None):
    """2 x 2 faces, periodic in both directions: links on both axes for every face"""
    t = {0: {"X": ((1, "X", False), (1, "X", False)), "Y": ((2, "Y", False), (2, "Y", False))},
         1: {"X": ((0, "X", False), (0, "X", False)), "Y": ((3, "Y", False), (3, "Y", False))},
         2: {"X": ((3, "X", False), (3, "X", False)), "Y": ((0, "Y", False), (0, "Y", False))},
         3: {"X": ((2, "X", False), (2, "X", False)), "Y": ((1, "Y", False), (1, "Y", False))}}
    faces = list(perm_faces) if perm_faces is not None else [0, 1, 2, 3]
    out = {}
    for f in faces:
        axs = ["X", "Y"] if not perm_axes or not perm_axes[f] else ["Y", "X"]
        out[f] = {a: t[f][a] for a in axs}
    return out


def table_open_2x2(perm_faces=None, perm_axes=None):
    """2 x 2 faces, open domain"""
    t = {0: {"X": (None, (1, "X", False)), "Y": (None, (2, "Y", False))},
         1: {"X": ((0, "X", False), None), "Y": (None, (3, "Y", False))},
         2: {"X": (None, (3, "X", False)), "Y": ((0, "Y", False), None)},
         3: {"X": ((2, "X", False), None), "Y": ((1, "Y", False), None)}}
    faces = list(perm_faces) if perm_faces is not None else [0, 1, 2, 3]
    out = {}
    for f in faces:
        axs = ["X", "Y"] if not perm_axes or not perm_axes[f] else ["Y", "X"]
        out[f] = {a: t[f][a] for a in axs}
    return out


def flat(a):
    return list(np.asarray(a, dtype=object).ravel())


def run(cfg, mk):
    import xgcm
    kind = cfg["scen"]
    out = []
    with warnings.catch_warnings():
        warnings.simplefilter("ignore")
        if kind == "pad":
            N = 2
            tb = (table_2x2 if cfg["topo"] == "periodic" else table_open_2x2)(cfg.get("perm_faces"), cfg.get("perm_axes"))
            ds = xr.Dataset(coords={"face": [0, 1, 2, 3], "xc": np.arange(N) + 0.5, "yc": np.arange(N) + 0.5, "xg": np.arange(N) * 1.0, "yg": np.arange(N) * 1.0})
            grid = xgcm.Grid(ds, coords={"X": {"center": "xc", "left": "xg"}, "Y": {"center": "yc", "left": "yg"}}, periodic=False, boundary=cfg["rule"],
                             fill_value=0.0, face_connections={"face": tb}, autoparse_metadata=False)
            a = mk("a", (4, N, N))
            da = xr.DataArray(a, dims=["face", "yc", "xc"])
            from xgcm.padding import pad
            for widths in cfg["widths"]:
                w = {k: tuple(v) for k, v in widths.items()}
                r = pad(da, grid, boundary_width=w, boundary=cfg["rule"], fill_value=1.5)
                out.append(("pad:%s:dims" % (sorted(w.items()),), sorted(r.dims)))
                out.append(("pad:%s:values" % (sorted(w.items()),), flat(r.transpose("face", "yc", "xc").data)))
            if cfg.get("diff"):
                r = grid.diff(da, cfg["diff"], boundary=cfg["rule"])
                out.append(("diff:%s:dims" % cfg["diff"], sorted(r.dims)))
                out.append(("diff:%s:values" % cfg["diff"], flat(r.transpose(*sorted(r.dims)).data)))
        elif kind == "pad2":
            # two padded axes with 'fill' and a different fill value per axis (corner cells see the order of the axes)
            N = 2
            from xgcm.padding import pad
            if cfg["faces"]:
                tb = {0: {"X": (None, (1, "X", False))}, 1: {"X": ((0, "X", False), None)}}
                ds = xr.Dataset(coords={"face": [0, 1], "xc": np.arange(N) + 0.5, "yc": np.arange(N) + 0.5})
                grid = xgcm.Grid(ds, coords={"X": {"center": "xc"}, "Y": {"center": "yc"}}, periodic=False, boundary="fill",
                                 fill_value={"X": 10.0, "Y": -20.0}, face_connections={"face": tb}, autoparse_metadata=False)
                da = xr.DataArray(mk("a", (2, N, N)), dims=["face", "yc", "xc"])
            else:
                ds = xr.Dataset(coords={"xc": np.arange(N) + 0.5, "yc": np.arange(N) + 0.5, "zc": np.arange(N) + 0.5})
                grid = xgcm.Grid(ds, coords={"X": {"center": "xc"}, "Y": {"center": "yc"}, "Z": {"center": "zc"}}, periodic=False, boundary="fill",
                                 fill_value={"X": 10.0, "Y": -20.0, "Z": 5.0}, autoparse_metadata=False)
                da = xr.DataArray(mk("a", (N, N, N)), dims=["zc", "yc", "xc"])
            for widths in cfg["widths"]:
                w = {k: tuple(v) for k, v in widths.items()}
                r = pad(da, grid, boundary_width=w)
                out.append(("pad2:%s:values" % (sorted(w.items()),), flat(r.transpose(*sorted(r.dims)).data)))
                r = pad(da, grid, boundary_width=w, boundary={"X": "fill", "Y": "fill"}, fill_value={"X": 1.5, "Y": 7.5})
                out.append(("pad2:%s:percall:values" % (sorted(w.items()),), flat(r.transpose(*sorted(r.dims)).data)))
            if not cfg["faces"]:
                # interp_like over three axes, each filled with its own value: the corner cells show the order of the axes,
                # which is the Grid's, never that of an unordered collection
                ds3 = ds.assign_coords(xg=("xg", np.arange(N) * 1.0), yg=("yg", np.arange(N) * 1.0), zg=("zg", np.arange(N) * 1.0))
                g3 = xgcm.Grid(ds3, coords={"X": {"center": "xc", "left": "xg"}, "Y": {"center": "yc", "left": "yg"}, "Z": {"center": "zc", "left": "zg"}}, periodic=False,
                               boundary="fill", fill_value={"X": 10.0, "Y": -20.0, "Z": 5.0}, autoparse_metadata=False)
                like = xr.DataArray(np.zeros((N, N, N)), dims=["zg", "yg", "xg"])
                r = g3.interp_like(da, like)
                out.append(("pad2:interp_like:dims", sorted(r.dims)))
                out.append(("pad2:interp_like:values", flat(r.transpose(*sorted(r.dims)).data)))

                def f2(x):
                    return x[..., 1:, 1:] - x[..., :-1, :-1]
                r = grid.apply_as_grid_ufunc(f2, da, axis=[("Y", "X")], signature="(U:center,V:center)->(U:center,V:center)", boundary_width={"U": (1, 0), "V": (1, 0)})
                out.append(("pad2:ufunc:values", flat(r.transpose(*sorted(r.dims)).data)))
        elif kind == "sig":
            from xgcm.grid_ufunc import _GridUFuncSignature
            for s1, s2 in cfg["pairs"]:
                a, b = _GridUFuncSignature.from_string(s1), _GridUFuncSignature.from_string(s2)
                out.append(("equivalent:%s~%s" % (s1, s2), bool(a.equivalent(b))))
                out.append(("equivalent:%s~%s" % (s2, s1), bool(b.equivalent(a))))
        elif kind == "parse":
            ds = build_parsed_ds(cfg)
            grid = xgcm.Grid(ds, periodic=False)
            out.append(("axes-order", list(grid.axes)))
            out.append(("axes-coords", [(k, sorted(v.coords.items())) for k, v in grid.axes.items()]))
            dims = [grid.axes[a].coords["center"] for a in sorted(grid.axes)]
            a = mk("a", tuple(ds.sizes[d] for d in dims))
            da = xr.DataArray(a, dims=dims)
            r = grid.diff(da, list(grid.axes), boundary="extend")
            out.append(("multi-axis-diff-in-grid-order:dims", sorted(r.dims)))
            out.append(("multi-axis-diff-in-grid-order:values", flat(r.transpose(*sorted(r.dims)).data)))
        elif kind == "metric":
            N = 2
            coords = {"xc": np.arange(N) + 0.5, "yc": np.arange(N) + 0.5, "zc": np.arange(N) + 0.5, "xg": np.arange(N) * 1.0}
            ds = xr.Dataset(coords=coords)
            names = {"a_xy": ("yc", "xc"), "a_xz": ("zc", "xc"), "a_yz": ("zc", "yc"), "dx": ("xc",), "dy": ("yc",), "dz": ("zc",), "dxg": ("xg",)}
            for nm, dims in names.items():
                ds[nm] = (dims, mk(nm, tuple(ds.sizes[d] for d in dims), positive=True))
            keyof = {"a_xy": ("X", "Y"), "a_xz": ("X", "Z"), "a_yz": ("Y", "Z"), "dx": ("X",), "dy": ("Y",), "dz": ("Z",), "dxg": ("X",)}
            metrics = {}
            for nm in cfg["registry"]:
                metrics.setdefault(keyof[nm], []).append(nm)
            grid = xgcm.Grid(ds, coords={"X": {"center": "xc", "left": "xg"}, "Y": {"center": "yc"}, "Z": {"center": "zc"}}, periodic=False,
                             metrics=metrics, autoparse_metadata=False)
            arr = xr.DataArray(mk("v", (N, N, N)), dims=["zc", "yc", "xc"])
            for req in cfg["requests"]:
                if cfg.get("op", "get_metric") == "get_metric":
                    try:
                        m = grid.get_metric(arr, tuple(req))
                        out.append(("get_metric:%s:dims" % "".join(req), sorted(m.dims)))
                        out.append(("get_metric:%s:values" % "".join(req), flat(m.transpose(*[d for d in ("zc", "yc", "xc") if d in m.dims]).data)))
                    except KeyError:
                        out.append(("get_metric:%s:outcome" % "".join(req), "KeyError"))
                else:
                    try:
                        r = grid.integrate(arr, list(req))
                        out.append(("integrate:%s:values" % "".join(req), flat(r.data)))
                    except KeyError:
                        out.append(("integrate:%s:outcome" % "".join(req), "KeyError"))
        else:
            raise ValueError(kind)
    return out


def build_parsed_ds(cfg):
    n = 2
    if cfg["conv"] == "comodo":
        coords = {}
        for ax in cfg["axes"]:
            c, g = ax.lower() + "c", ax.lower() + "g"
            coords[c] = xr.DataArray(np.arange(n) + 0.5, dims=[c], attrs={"axis": ax})
            coords[g] = xr.DataArray(np.arange(n) * 1.0, dims=[g], attrs={"axis": ax, "c_grid_axis_shift": -0.5})
        return xr.Dataset(coords=coords)
    # sgrid
    nax = len(cfg["axes"])
    dimsn = {"X": ("xn", "xf"), "Y": ("yn", "yf"), "Z": ("zn", "zf")}
    coords = {}
    for ax in cfg["axes"]:
        nn, ff = dimsn[ax]
        coords[nn] = np.arange(n + 1) * 1.0
        coords[ff] = np.arange(n) + 0.5
    ds = xr.Dataset(coords=coords)
    attrs = {"cf_role": "grid_topology", "topology_dimension": nax if cfg.get("vertical") is None else 2,
             "node_dimensions": " ".join(dimsn[a][0] for a in cfg["axes"][: (nax if cfg.get("vertical") is None else 2)])}
    cell = " ".join("%s: %s (padding: none)" % (dimsn[a][1], dimsn[a][0]) for a in cfg["axes"][: (nax if cfg.get("vertical") is None else 2)])
    if cfg.get("vertical") is None and nax == 3:
        attrs["volume_dimensions"] = cell
    else:
        attrs["face_dimensions"] = cell
    if cfg.get("vertical"):
        attrs["vertical_dimensions"] = "zf: zn (padding: none)"
    ds["grid"] = xr.DataArray(0, attrs=attrs)
    ds.attrs["Conventions"] = "SGRID-0.3"
    return ds


def _main():
    body = json.loads(sys.stdin.read())
    env = body["env"]

    def mk(name, shape, positive=False):
        a = np.empty(shape, dtype=float)
        for idx in np.ndindex(*shape):
            a[idx] = env[name + "".join("_%d" % i for i in idx)]
        return a

    res = run(body["cfg"], mk)
    print(json.dumps([[t, [float(x) for x in v] if (isinstance(v, list) and v and isinstance(v[0], (float, np.floating))) else v] for t, v in res], default=str))


if __name__ == "__main__":
    _main()
