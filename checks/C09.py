"""C09 cumsum is the running sum at the shifted position and inverts diff."""
import itertools
import sys

import numpy as np
import xarray as xr

from lib import harness
from lib.grids import axis_dims, interleavings, layouts, make_ds, make_grid
from specs.stencil import apply_along, plen, spec_1d, spec_cumsum, spec_default_shift, valid_shift
from checks.C01 import GMODES, _kwargs

ID = "C09"
FUNCTIONS = ["xgcm.grid:Grid.cumsum", "xgcm.grid:Grid.cumint", "xgcm.grid:Grid.integrate", "xgcm.grid:Grid.get_metric",
             "xgcm.grid:Grid._1d_grid_ufunc_dispatch", "xgcm.padding:pad", "xgcm.padding:_pad_basic",
             "xgcm.grid_ufunc:_reattach_coords", "xgcm.axis:Axis._get_position_name"]
BOUNDS = {
    "quick": {"N": [2, 3], "layouts": "all 16", "shifts": "all 8 + default", "rules": "per call (symbolic fill) and grid default",
              "extra_dims": "0-1, every interleaving", "axes": "1; 2 axes both orders (order independence, cumint/integrate with symbolic positive metrics)"},
    "thorough": {"N": [2, 3, 4, 5, 6], "layouts": "all 16", "extra_dims": "0-2 (N>4: 0-1)", "axes": "1, 2 and 3 axes in every order"},
}
OUTSIDE = ["N > 6", "float rounding (sums are re-associated)", "NaN data (skipna)"]
ASSUMPTIONS = ["input data finite", "metrics strictly positive"]


def cases(tier):
    out = []
    for N in ([2, 3] if tier == "quick" else [2, 3, 4, 5, 6]):
        for layout in layouts():
            if len(layout) == 1:
                continue
            for gm in GMODES:
                extras = [[], [["t", 2]]] if tier == "quick" else ([[], [["t", 2]], [["t", 1], ["s", 2]]] if N <= 4 else [[], [["t", 2]]])
                for extra in extras:
                    for oi in range(len(interleavings(["x"], [e[0] for e in extra]))):
                        out.append(dict(kind="1ax", N=N, layout=list(layout), gmode=gm, extra=extra, order=oi))
        for gm in ("periodic", "nonper", "fill25"):
            out.append(dict(kind="inverse", N=N, gmode=gm))
        for axorder in itertools.permutations(["X", "Y"] if tier == "quick" else ["X", "Y", "Z"]):
            for dord in (0, 1):
                out.append(dict(kind="multi", N=min(N, 3), axorder=list(axorder), dord=dord))
        for to in ("outer", "right", "left", "inner"):
            out.append(dict(kind="cumint", N=N, to=to))
    return out


def case(W, cfg):
    return {"1ax": case_1ax, "inverse": case_inverse, "multi": case_multi, "cumint": case_cumint}[cfg["kind"]](W, cfg)


def case_1ax(W, cfg):
    N, layout, gm = cfg["N"], tuple(cfg["layout"]), cfg["gmode"]
    gkw, grule, gfill = GMODES[gm]
    axes = {"X": layout}
    extra = {e[0]: e[1] for e in cfg["extra"]}
    ds = make_ds(axes, N, extra)
    grid = make_grid(ds, axes, **gkw)
    dims = axis_dims("X", layout)
    call_rules = [None, "fill+fv", "fill+fvdict", "fill", "extend", "periodic"] if gm in ("periodic", "fill25") else [None, "fill+fv"]
    for frm in layout:
        order = interleavings([dims[frm]], list(extra))[cfg["order"]]
        shape = [extra[d] if d in extra else plen(frm, N) for d in order]
        a = W.data("a", shape)
        da = xr.DataArray(a, dims=order, name="nm")
        ax_i = order.index(dims[frm])
        for to in [p for p in layout if valid_shift(frm, p)] + [None]:
            eff_to = to if to is not None else spec_default_shift(frm, layout)
            if eff_to is None:
                continue
            for cr in call_rules:
                kw, rule, fill = _kwargs(W, cr)
                rule = rule or grule
                fill = gfill if fill is None else fill
                if to is not None:
                    kw["to"] = to
                lab = "%s->%s:%s" % (frm, to, cr)
                r = grid.cumsum(da, "X", **kw)
                exp_dims = tuple(dims[eff_to] if d == dims[frm] else d for d in order)
                W.require("dims:" + lab, tuple(r.dims) == exp_dims, "dims %s want %s" % (r.dims, exp_dims))
                if tuple(r.dims) != exp_dims:
                    continue
                want = apply_along(a, ax_i, lambda v: spec_cumsum(v, frm, eff_to, N, rule, fill))
                W.equal("cumsum:" + lab, r.data, want)


def case_inverse(W, cfg):
    N = cfg["N"]
    gkw, grule, gfill = GMODES[cfg["gmode"]]
    axes = {"X": ("center", "outer", "left")}
    ds = make_ds(axes, N, {"t": 2})
    grid = make_grid(ds, axes, **gkw)
    a = W.data("a", (2, N))
    da = xr.DataArray(a, dims=("t", "xc"))
    c = grid.cumsum(da, "X", to="outer", boundary="fill", fill_value=0)
    back = grid.diff(c, "X", to="center")
    W.require("inverse-dims", tuple(back.dims) == ("t", "xc"), str(back.dims))
    W.equal("inverse", back.data, a)


def case_multi(W, cfg):
    """order independence over several axes with zero fill; a satisfiable witness that a non-zero
    fill makes the order matter is a reachability fact, not a claim"""
    N = cfg["N"]
    names = sorted(cfg["axorder"])
    lay = {"X": ("center", "outer"), "Y": ("center", "left"), "Z": ("center", "inner", "right")}
    axes = {ax: lay[ax] for ax in names}
    n = {"X": N, "Y": N + 1, "Z": N}
    ds = make_ds(axes, n)
    grid = make_grid(ds, axes, periodic=False)
    dn = {ax: axis_dims(ax, axes[ax]) for ax in axes}
    order = [dn[ax]["center"] for ax in names]
    if cfg["dord"]:
        order = order[::-1]
    a = W.data("a", [ds.sizes[d] for d in order])
    da = xr.DataArray(a, dims=order)
    to = {"X": "outer", "Y": "left", "Z": "right"}
    to = {ax: to[ax] for ax in names}
    for fillname in ("zero", "default0", "sym"):
        kw = dict(to=to, boundary="fill")
        if fillname == "zero":
            kw["fill_value"] = 0
        elif fillname == "sym":
            kw["fill_value"] = W.scalar("fv")
        fill = kw.get("fill_value", 0.0)
        r = grid.cumsum(da, cfg["axorder"], **kw)
        cur, cur_dims = a, list(order)
        for ax in cfg["axorder"]:
            i = cur_dims.index(dn[ax]["center"])
            cur = apply_along(cur, i, lambda v, ax=ax: spec_cumsum(v, "center", to[ax], n[ax], "fill", fill))
            cur_dims[i] = dn[ax][to[ax]]
        W.require("multi-dims:" + fillname, tuple(r.dims) == tuple(cur_dims), "%s vs %s" % (r.dims, cur_dims))
        W.equal("multi-seq:" + fillname, r.data, cur)
        if fillname != "sym":
            # the canonical order gives the same answer
            r0 = grid.cumsum(da, names, **kw).transpose(*r.dims)
            W.equal("multi-order-independent:" + fillname, r.data, r0.data, record=False)


def case_cumint(W, cfg):
    N, to = cfg["N"], cfg["to"]
    axes = {"X": ("center", "outer", "right", "left", "inner"), "Y": ("center", "outer")}
    n = {"X": N, "Y": 2}
    ds = make_ds(axes, n)
    pos = (lambda r: r.uniform(0.5, 3.0))
    dx = W.data("dx", (N,), gen=pos)
    dy = W.data("dy", (2,), gen=pos)
    if W.sym:
        for m in list(dx) + list(dy):
            W.assume(m.t > 0)
    ds["dx"] = (("xc",), dx)
    ds["dy"] = (("yc",), dy)
    grid = make_grid(ds, axes, periodic=False, metrics={("X",): ["dx"], ("Y",): ["dy"]})
    a = W.data("a", (2, N))
    da = xr.DataArray(a, dims=("yc", "xc"))
    ci = grid.cumint(da, "X", to=to, boundary="fill", fill_value=0)
    am = np.empty((2, N), dtype=object if W.sym else float)
    for j in range(2):
        for i in range(N):
            am[j, i] = a[j, i] * dx[i]
    want = apply_along(am, 1, lambda v: spec_cumsum(v, "center", to, N, "fill", 0.0))
    W.equal("cumint=cumsum(data*metric):" + to, ci.data, want)
    if to in ("outer", "right"):
        it = grid.integrate(da, "X")
        W.equal("cumint-last=integrate:" + to, ci.isel({ci.dims[1]: -1}).data, it.data)
        tot = [sum((a[j, i] * dx[i] for i in range(1, N)), a[j, 0] * dx[0]) for j in range(2)]
        W.equal("integrate=sum(data*metric):" + to, it.data, tot)
    # the metric in force is the one registered *now*: overwrite it and integrate again on the same Grid
    dx2 = W.data("dxnew", (N,), gen=pos)
    if W.sym:
        for m in dx2:
            W.assume(m.t > 0)
    grid._ds["dxnew"] = (("xc",), dx2)
    grid.set_metrics(("X",), "dxnew", overwrite=True)
    ci_new = grid.cumint(da, "X", to=to, boundary="fill", fill_value=0)
    am2 = np.empty((2, N), dtype=object if W.sym else float)
    for j in range(2):
        for i in range(N):
            am2[j, i] = a[j, i] * dx2[i]
    W.equal("cumint-after-metric-overwrite:" + to, ci_new.data, apply_along(am2, 1, lambda v: spec_cumsum(v, "center", to, N, "fill", 0.0)), record=False)
    grid.set_metrics(("X",), "dx", overwrite=True)
    if to == "outer":
        ci2 = grid.cumint(da, ["X", "Y"], to="outer", boundary="fill", fill_value=0)
        it2 = grid.integrate(da, ["X", "Y"])
        W.equal("cumint2-corner=integrate2", [ci2.isel(xo=-1, yo=-1).data[()]], [it2.data[()]])


if __name__ == "__main__":
    sys.exit(harness.main(sys.modules[__name__]))
