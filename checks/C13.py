"""C13 Axis, dimension and variable names are opaque labels."""
import ast
import glob
import itertools
import keyword
import os
import re
import sys

import numpy as np

from lib import harness
from checks import C13_scen
from checks.C13_scen import BASE, NAMESPACES, ROLES_BY_SCEN

ID = "C13"
FUNCTIONS = ["xgcm.grid_ufunc:_GridUFuncSignature.equivalent", "xgcm.grid_ufunc:_parse_signature_from_string", "xgcm.grid:Grid._create_1d_grid_ufunc_signatures",
             "xgcm.grid:_select_grid_ufunc", "xgcm.grid:Grid.get_metric", "xgcm.grid:Grid._get_dims_from_axis", "xgcm.transform:transform",
             "xgcm.transform:input_handling", "xgcm.sgrid:get_axis_positions_and_coords", "xgcm.comodo:get_axis_positions_and_coords",
             "xgcm.padding:_maybe_swap_dimension_names", "xgcm.padding:_maybe_rename_grid_positions", "xgcm.grid_ufunc:_substitute_dummy_axis_names"]
BOUNDS = {
    "quick": {"names": "EXPLORED, not solver-decided: a pool generated from the current source (string constants of xgcm/*.py, letters and fragments of the five position words, names containing a position word, prefixes/superstrings/case variants of the other names in play, xgcm's internal temporaries; identifiers of length 1-12); every pool name in every role once",
              "data": "solver-decided: for each renaming z3 decides that all results are equal to the baseline run for all data values",
              "call sequences": "explicit Grid ops (str and list axes, multi-axis, metrics), face-connected pad/diff/vector, grid ufuncs with renamed dummy names, COMODO and SGRID autoparsing, linear and conservative transform"},
    "thorough": {"names": "+ all pairs of pool names for two roles of the same namespace (axis/axis, dim/dim of one axis, dummy/dummy, target/target_dim)"},
}
OUTSIDE = ["names as free strings: a symbolic str is realised when hashed (dict/set keys on the first lines of every path) and re/f-strings cannot be driven by value overloading, so the name quantifier is an enumeration of a source-derived pool, not a solver verdict",
           "identifiers longer than 12 characters (xgcm's temporaries temp_dim_target, TRANSFORMED_DIMENSION)", "non-ASCII identifiers"]
ASSUMPTIONS = ["data finite", "metrics positive"]
POSITIONS = ["center", "left", "right", "inner", "outer"]


def source_constants():
    out = set()
    for path in glob.glob(os.path.join(harness.repo_root(), "xgcm", "*.py")):
        try:
            tree = ast.parse(open(path).read())
        except SyntaxError:
            continue
        for node in ast.walk(tree):
            if isinstance(node, ast.Constant) and isinstance(node.value, str):
                for tok in re.findall(r"[A-Za-z_][A-Za-z0-9_]*", node.value) if len(node.value) < 40 else []:
                    out.add(tok)
    return out


def ident(s):
    return re.fullmatch(r"[A-Za-z_][A-Za-z0-9_]*", s) is not None and 1 <= len(s) <= 12 and s not in POSITIONS and not keyword.iskeyword(s)


def pool(tier="quick"):
    p = set()
    consts = sorted(c for c in source_constants() if ident(c))
    # source constants: keep the short ones and those related to positions / temporaries (the rest are prose words)
    for c in consts:
        if len(c) <= 2 or any(w in c for w in POSITIONS) or c in ("temp_unique", "remapped", "dummy", "axis", "face", "padding", "none", "both", "high", "low",
                                                                   "periodic", "fill", "extend", "wrap", "edge", "constant", "X", "Y", "Z", "return"):
            p.add(c)
    for w in POSITIONS:
        for ch in w:
            p.add(ch)
        p.update({w + "1", "x_" + w, w.upper(), w.capitalize(), w[:3], w[1:], w[:-1], w + w})
    p.update({"leftover", "outerX", "rightmost", "inn", "er", "en", "igh", "out", "cent", "ente", "t", "e", "r", "c", "n"})
    p.update({"temp_unique", "remapped", "xgdummy", "xcdummy", "ycdummy", "dummy", "__a", "__b", "__X", "_"})
    for v in BASE.values():
        p.update({v.upper(), v.lower(), v[:1], v + "c", v + "_", v[:-1] or v, v + v})
    p.update({"a", "aa", "A", "lon", "longitude", "LON", "depth", "k", "x", "X0", "Xc"})
    return sorted(n for n in p if ident(n))


def renaming(role, name, extra=None):
    """BASE with role -> name (and extra role->name), or None if names would clash inside a namespace"""
    nm = dict(BASE)
    nm[role] = name
    for r, n in (extra or {}).items():
        nm[r] = n
    for ns in NAMESPACES:
        vals = [nm[r] for r in ns]
        if len(set(vals)) != len(vals):
            return None
    return nm


def cases(tier):
    out = []
    P = pool(tier)
    for scen, roles in ROLES_BY_SCEN.items():
        for role in roles:
            names = [n for n in P if renaming(role, n) is not None and n != BASE[role]]
            for k in range(0, len(names), 12):
                out.append(dict(scen=scen, role=role, names=names[k:k + 12]))
    if tier == "thorough":
        pairs = {"ops": [("AX1", "AX2"), ("D1C", "D1L"), ("M1", "M1L")], "ufunc": [("U1", "U2"), ("AX1", "U1")], "transform": [("TGT", "TDIM"), ("D3C", "D3O")],
                 "faces": [("AX1", "AX2"), ("D1C", "D2C")], "sgrid": [("D1C", "D1O"), ("D2C", "D2L"), ("D3C", "D3O")], "comodo": [("AX1", "AX2"), ("D1C", "D1L")]}
        short = [n for n in P if len(n) <= 3 or any(w in n for w in POSITIONS)][:40]
        for scen, prs in pairs.items():
            for r1, r2 in prs:
                combos = [(a, b) for a in short for b in short if a != b and renaming(r1, a, {r2: b}) is not None]
                for k in range(0, len(combos), 40):
                    out.append(dict(scen=scen, role=r1, role2=r2, pairs=combos[k:k + 40]))
    return out


def case(W, cfg):
    def mk(name, shape, positive=False):
        a = W.data(name, shape, gen=(lambda r: r.randint(2, 30) / 4.0) if positive else None)
        if positive and W.sym:
            for x in a.ravel():
                W.assume(x.t > 0)
        return a

    scen = cfg["scen"]
    base = C13_scen.run(scen, dict(BASE), mk)
    W.require("baseline-accepted", all(v == "ok" or "wrong-position" in t for t, v in base if t.endswith(":outcome")),
              "a call of the baseline sequence is refused although a renamed one may be accepted: %s" % [t for t, v in base if t.endswith(":outcome") and v != "ok"])
    todo = [(n, None) for n in cfg.get("names", [])] + [tuple(p) for p in cfg.get("pairs", [])]
    for n1, n2 in todo:
        nm = renaming(cfg["role"], n1, {cfg["role2"]: n2} if n2 is not None else None)
        if nm is None:
            continue
        desc = "%s=%r" % (cfg["role"], n1) + ("" if n2 is None else ",%s=%r" % (cfg["role2"], n2))
        try:
            got = C13_scen.run(scen, nm, mk)
        except Exception as e:  # noqa
            W.fail("renamed-run-crashes:%s" % type(e).__name__, "%s: %s: %s" % (desc, type(e).__name__, str(e)[:200]))
            continue
        if [t for t, _ in got] != [t for t, _ in base]:
            # a refused call changes the set of observations: report the first outcome that differs
            gb, bb = dict(got), dict(base)
            diff = [t for t in bb if t.endswith(":outcome") and gb.get(t) != bb[t]]
            W.fail("same-accept/reject:" + (diff[0].split(":")[0] if diff else "?"), "%s: %s -> %s (baseline %s)" % (desc, diff[:1], [gb.get(t) for t in diff[:1]], [bb[t] for t in diff[:1]]))
            continue
        for (t, b), (_, g) in zip(base, got):
            op = t.split(":")[0]
            if t.endswith(":values"):
                W.equal("same-values:" + op, g, b, detail=desc, record=False)
            else:
                W.require("same-%s:%s" % (t.split(":")[-1] if ":" in t else "obs", op), g == b, "%s: %r vs baseline %r" % (desc, g, b))
    for t, b in base:
        if t.endswith(":values"):
            W.record("baseline:" + t, b)


def finding_key(cfg, v):
    d = v.get("detail_float", "") + v.get("detail_sym", "")
    lab = v["label"]
    m = re.search(r"(\w+)='([^']*)'", d)
    role, name = (m.group(1), m.group(2)) if m else ("?", "?")
    if name in ("temp_unique", "remapped") and cfg["scen"] == "transform":
        return "transform-internal-temporary-name:%s" % name
    if name.endswith("dummy") and cfg["scen"] == "faces":
        return "padding-swap-temporary-name:%s" % name
    return "%s:%s:%s" % (cfg["scen"], role, lab)


if __name__ == "__main__":
    sys.exit(harness.main(sys.modules[__name__]))
