"""C19 Outputs are labelled with the grid's coordinates for the new position."""
import itertools
import sys
import warnings

import numpy as np
import xarray as xr

from lib import harness
from specs.stencil import plen

ID = "C19"
FUNCTIONS = ["xgcm.grid_ufunc:_reattach_coords", "xgcm.padding:_strip_all_coords", "xgcm.padding:pad", "xgcm.grid:Grid.cumsum",
             "xgcm.grid:Grid._1d_grid_ufunc_dispatch", "xgcm.grid_ufunc:apply_as_grid_ufunc", "xgcm.grid_ufunc:_apply"]
BOUNDS = {
    "quick": {"dataset": "axes X (center,left,outer,inner) and Y (center,left), extra dim t; non-dimension coordinates 0-D, 1-D on each X position, 2-D (y,x-left), 3-D, all with symbolic values and attributes; with and without dimension coordinates",
              "operations": "diff/interp/min/max on padded (center->left, left->center, center->outer) and unpadded (outer->center, center->inner) paths, cumsum (4 shifts), keep_coords True/False; the same through metric_weighted calls, calls over two axes, apply_as_grid_ufunc and interp_like with a template carrying other labels (N=2)",
              "face-connected": "2 faces, axis-swapping link on the left / on the right / same-axis link; scalar and vector diff/interp, cumsum; keep_coords T/F; with and without dimension coordinates", "inputs": "carrying the dataset's coordinates, none, or other labels (symbolic non-index coordinates, shifted index labels)", "N": [2, 3]},
    "thorough": {"N": [2, 3, 4], "operations": "variants also at N=3"},
}
OUTSIDE = ["symbolic index (dimension-coordinate) labels: pandas indexes hash their labels", "coordinates of the input that are not coordinates of the grid dataset (statement is silent)"]
ASSUMPTIONS = ["data finite"]
POSD = {"center": "xc", "left": "xg", "outer": "xo", "inner": "xi"}
SHIFTS = [("center", "left"), ("left", "center"), ("center", "outer"), ("outer", "center"), ("center", "inner"), ("inner", "center")]


def cases(tier):
    out = []
    for N in ([2, 3] if tier == "quick" else [2, 3, 4]):
        for dimcoords in ("all", "none", "some"):
            for frm, to in SHIFTS:
                for inp in ("dataset", "none", "other"):
                    out.append(dict(N=N, dimcoords=dimcoords, frm=frm, to=to, inp=inp))
                # a grid dataset whose only non-dimension coordinates live on the target position
                out.append(dict(N=N, dimcoords=dimcoords, frm=frm, to=to, inp="none", only_on=POSD[to]))
                out.append(dict(N=N, dimcoords=dimcoords, frm=frm, to=to, inp="dataset", only_on=POSD[frm]))
    # the same labelling through other routes to the same machinery: metric-weighted calls, calls over two axes,
    # and a user function applied as a grid ufunc (keep_coords defaults differ there)
    for N in ([2] if tier == "quick" else [2, 3]):
        for dimcoords in ("all", "none", "some"):
            for frm, to in SHIFTS:
                for inp in ("dataset", "none"):
                    for variant in ("mw", "axes2", "ufunc", "interp_like"):
                        out.append(dict(N=N, dimcoords=dimcoords, frm=frm, to=to, inp=inp, variant=variant))
    # face-connected grids: scalar and vector inputs across same-axis and axis-swapping links on either side
    for tb in ("swap-on-left", "swap-on-right", "same-axis"):
        for dimcoords in ("all", "none"):
            out.append(dict(variant="faces", table=tb, dimcoords=dimcoords, N=2))
    return out


FACE_TABLES = {
    "swap-on-left": {0: {"Y": ((1, "X", False), None)}, 1: {"X": (None, (0, "Y", False))}},
    "swap-on-right": {0: {"X": (None, (1, "Y", False))}, 1: {"Y": ((0, "X", False), None)}},
    "same-axis": {0: {"X": (None, (1, "X", False))}, 1: {"X": ((0, "X", False), None)}},
}


def case_faces(W, cfg):
    """labels and name of results on a face-connected grid: the halo comes from another face (and, for vectors, from the
    partner component), the labels and the name never do"""
    import xgcm
    N = cfg["N"]
    sizes = {"face": 2, "xc": N, "xg": N, "yc": N, "yg": N}
    coords = {}
    if cfg["dimcoords"] == "all":
        for d, n in sizes.items():
            coords[d] = xr.DataArray(np.arange(n) * 1.0 + (0.5 if d in ("xc", "yc") else 0.0), dims=[d], attrs={"which": d})
    ds = xr.Dataset(coords=coords)
    nd = {"lon_c": ("face", "yc", "xc"), "lon_u": ("face", "yc", "xg"), "lon_v": ("face", "yg", "xc"), "tile": ("face",)}
    vals = {}
    for name, dims in nd.items():
        vals[name] = W.data(name, tuple(sizes[d] for d in dims))
        ds = ds.assign_coords({name: xr.DataArray(vals[name], dims=dims, attrs={"long_name": name})})
    for d in sizes:
        if d not in ds.dims:
            ds["_len_" + d] = ((d,), np.zeros(sizes[d]))
    with warnings.catch_warnings():
        warnings.simplefilter("ignore")
        grid = xgcm.Grid(ds, coords={"X": {"center": "xc", "left": "xg"}, "Y": {"center": "yc", "left": "yg"}}, periodic=False, boundary="fill", fill_value=0.0,
                         face_connections={"face": FACE_TABLES[cfg["table"]]}, autoparse_metadata=False)
    u = xr.DataArray(W.data("u", (2, N, N)), dims=["face", "yc", "xg"], name="uvel")
    v = xr.DataArray(W.data("v", (2, N, N)), dims=["face", "yg", "xc"], name="vvel")
    c = xr.DataArray(W.data("c", (2, N, N)), dims=["face", "yc", "xc"], name="tracer")
    calls = []
    for op in ("diff", "interp"):
        calls.append(("%s:vector-X" % op, "uvel", ("face", "yc", "xc"), lambda keep, op=op: getattr(grid, op)({"X": u}, "X", to="center", other_component={"Y": v}, keep_coords=keep)))
        calls.append(("%s:vector-Y" % op, "vvel", ("face", "yc", "xc"), lambda keep, op=op: getattr(grid, op)({"Y": v}, "Y", to="center", other_component={"X": u}, keep_coords=keep)))
        calls.append(("%s:scalar-X" % op, "tracer", ("face", "yc", "xg"), lambda keep, op=op: getattr(grid, op)(c, "X", to="left", keep_coords=keep)))
        calls.append(("%s:scalar-Y" % op, "tracer", ("face", "yg", "xc"), lambda keep, op=op: getattr(grid, op)(c, "Y", to="left", keep_coords=keep)))
    calls.append(("cumsum:scalar-X", "tracer", ("face", "yc", "xg"), lambda keep: grid.cumsum(c, "X", to="left", boundary="fill", fill_value=0.0, keep_coords=keep)))
    for lab0, name, rdims, fn in calls:
        for keep in (True, False):
            lab = "faces[%s]:%s:keep=%s" % (cfg["table"], lab0, keep)
            try:
                with warnings.catch_warnings():
                    warnings.simplefilter("ignore")
                    r = fn(keep)
            except Exception as e:  # noqa
                if lab0.startswith("cumsum"):
                    # cumsum trims before it pads, so faces are not square when the halo is rotated in: whether that is
                    # answered at all is no labelling question (and outside C09's quantifier); nothing to label
                    continue
                W.fail("raises:%s:%s" % (type(e).__name__, lab0), "%s: %s" % (lab, str(e)[:200]))
                continue
            W.require("dims", tuple(r.dims) == rdims, "%s: %s" % (lab, r.dims))
            W.require("name-kept", r.name == name, "%s: name %r, input's name %r" % (lab, r.name, name))
            for d in rdims:
                if d in ds.coords:
                    ok = d in r.coords and list(r[d].values) == list(ds[d].values) and dict(r[d].attrs) == dict(ds[d].attrs)
                    W.require("new-dim-coordinate-from-grid" if d in ("xc", "xg", "yc", "yg") else "untouched-dim-coordinate-kept", ok, "%s: dim %s -> %s" % (lab, d, r.coords.get(d)))
                else:
                    W.require("no-invented-coordinate", d not in r.coords, "%s: coordinate %s appeared" % (lab, d))
            for cname, cd in nd.items():
                should = set(cd) <= set(rdims) and keep
                W.require("other-grid-coordinates-iff-fit-and-keep_coords", (cname in r.coords) == should, "%s: coordinate %s present=%s keep_coords=%s" % (lab, cname, cname in r.coords, keep))
                if cname in r.coords and should:
                    W.equal("attached-coordinate-values", r[cname].transpose(*cd).data, vals[cname], detail="%s %s" % (lab, cname), record=False)
            W.record(lab, list(r.transpose(*rdims).data.ravel()))


UFUNC_WIDTHS = {("center", "left"): (1, 0), ("left", "center"): (0, 1), ("center", "outer"): (1, 1), ("outer", "center"): (0, 0),
                ("center", "inner"): (0, 0), ("inner", "center"): (1, 1)}


def build(W, N, dimcoords, only_on=None, metrics=False):
    sizes = {"xc": N, "xg": N, "xo": N + 1, "xi": N - 1, "yc": 2, "yg": 2, "t": 2}
    coords = {}
    want_dim = {"all": list(sizes), "none": [], "some": ["xc", "xo", "yc"]}[dimcoords]
    for d in want_dim:
        coords[d] = xr.DataArray(np.arange(sizes[d]) * 1.0 + {"xc": 0.5, "yc": 0.5, "xi": 1.0}.get(d, 0.0), dims=[d], attrs={"units": "m", "which": d})
    ds = xr.Dataset(coords=coords)
    nd = {"scalar_c": (), "lon_c": ("xc",), "lon_g": ("xg",), "lon_o": ("xo",), "lon_i": ("xi",), "lat_c": ("yc",), "area_g": ("yc", "xg"), "area_c": ("yc", "xc"),
          "vol_c": ("t", "yc", "xc"), "tlab": ("t",)}
    if only_on is not None:
        nd = {k: v for k, v in nd.items() if only_on in v}
    vals = {}
    for name, dims in nd.items():
        arr = W.data(name, tuple(sizes[d] for d in dims))
        vals[name] = arr
        ds = ds.assign_coords({name: xr.DataArray(arr, dims=dims, attrs={"long_name": name})})
    for d in sizes:
        if d not in ds.dims:
            ds["_len_" + d] = ((d,), np.zeros(sizes[d]))
    if metrics:
        for d in POSD.values():
            m = W.data("dx_" + d, (sizes[d],), gen=lambda r: r.randint(2, 20) / 4.0)
            if W.sym:
                for x in m.ravel():
                    W.assume(x.t > 0)
            ds["dx_" + d] = ((d,), m)
    return ds, sizes, nd, vals


def case(W, cfg):
    import xgcm
    if cfg.get("variant") == "faces":
        return case_faces(W, cfg)
    N, frm, to = cfg["N"], cfg["frm"], cfg["to"]
    variant = cfg.get("variant", "plain")
    ds, sizes, nd, vals = build(W, N, cfg["dimcoords"], cfg.get("only_on"), metrics=(variant == "mw"))
    gkw = dict(metrics={("X",): ["dx_" + d for d in POSD.values()]}) if variant == "mw" else {}
    with warnings.catch_warnings():
        warnings.simplefilter("ignore")
        grid = xgcm.Grid(ds, coords={"X": dict(POSD), "Y": {"center": "yc", "left": "yg"}}, periodic=False, boundary="extend", autoparse_metadata=False, **gkw)
    old, new = POSD[frm], POSD[to]
    olds, news = [old], [new]
    dims = ["t", "yc", old]
    a = W.data("a", tuple(sizes[d] for d in dims))
    base = xr.DataArray(a, dims=dims, name="tracer")
    if cfg["inp"] == "dataset":
        da = base.assign_coords({k: v for k, v in ds.coords.items() if set(v.dims) <= set(dims)})
    elif cfg["inp"] == "none":
        da = base
    else:
        other = {}
        for d in dims:
            other[d] = np.arange(sizes[d]) * 10.0 + 100.0
        other["lon_" + {"center": "c", "left": "g", "outer": "o", "inner": "i"}[frm]] = ((old,), W.data("otherlon", (sizes[old],)))
        other["mylabel"] = (("yc",), W.data("mylabel", (2,)))
        da = base.assign_coords(other)
    axis, extra_kw, ops = "X", {}, ("diff", "interp", "min", "max", "cumsum")
    to_arg = to
    if variant == "mw":
        extra_kw = dict(metric_weighted=("X",))
    elif variant == "axes2":
        axis, to_arg = ["X", "Y"], {"X": to, "Y": "left"}
        olds, news = [old, "yc"], [new, "yg"]
    elif variant == "ufunc":
        ops = ("ufunc",)
    elif variant == "interp_like":
        ops = ("interp_like",)
    # a template array at the target position that carries labels of its own (never the grid's)
    like = xr.DataArray(np.zeros((2, sizes[new])), dims=["yc", new], coords={new: np.arange(sizes[new]) * 10.0 + 100.0, "yc": [7.0, 8.0]}, name="template")

    def call(op, arr, keep):
        if op == "interp_like":
            return grid.interp_like(arr, like)
        if op == "ufunc":
            r = grid.apply_as_grid_ufunc(lambda x: x[..., 1:] - x[..., :-1], arr, axis=[("X",)], signature="(X:%s)->(X:%s)" % (frm, to),
                                         boundary_width={"X": UFUNC_WIDTHS[(frm, to)]}, keep_coords=keep)
            return r[0] if isinstance(r, (tuple, list)) else r
        return getattr(grid, op)(arr, axis, to=to_arg, keep_coords=keep, **extra_kw)

    for op in ops:
        for keep in ((False,) if op == "interp_like" else (True, False)):
            lab = "%s%s:%s->%s:keep=%s" % (op, "" if variant == "plain" else "[" + variant + "]", frm, to, keep)
            with warnings.catch_warnings():
                warnings.simplefilter("ignore")
                try:
                    r = call(op, da, keep)
                except Exception as e:  # noqa
                    W.fail("raises:%s:%s" % (type(e).__name__, op), "%s: %s" % (lab, str(e)[:200]))
                    continue
                r_plain = call(op, base, keep)
            rdims = tuple(news[olds.index(d)] if d in olds else d for d in dims)
            W.require("dims", tuple(r.dims) == rdims, "%s: %s" % (lab, r.dims))
            if tuple(r.dims) != rdims:
                continue
            if op not in ("ufunc", "interp_like"):
                W.require("name-kept", r.name == "tracer", "%s: name %r" % (lab, r.name))
            # values never depend on the input's labels
            W.equal("values-independent-of-input-labels:" + op, r.data, r_plain.data, detail=lab, record=keep)
            # coordinate of the new dimension = the dataset's coordinate for the target position
            for nw in news:
                if nw in ds.coords:
                    ok = nw in r.coords and list(r[nw].values) == list(ds[nw].values) and dict(r[nw].attrs) == dict(ds[nw].attrs)
                    W.require("new-dim-coordinate-from-grid", ok, "%s: %s" % (lab, r.coords.get(nw)))
                else:
                    W.require("no-invented-coordinate", nw not in r.coords, "%s: coordinate %s appeared" % (lab, nw))
            if cfg["inp"] != "other":
                for d in rdims:
                    if d in news:
                        continue
                    if d in ds.coords:
                        ok = d in r.coords and list(r[d].values) == list(ds[d].values) and dict(r[d].attrs) == dict(ds[d].attrs)
                        W.require("untouched-dim-coordinate-kept", ok, "%s: dim %s -> %s" % (lab, d, r.coords.get(d)))
                    elif cfg["inp"] == "none":
                        W.require("no-invented-coordinate", d not in r.coords, "%s: coordinate %s appeared" % (lab, d))
            stale = [k for k, v in r.coords.items() if set(olds) & set(v.dims)]
            W.require("no-coordinate-on-abandoned-dim", not stale, "%s: stale coordinates %s" % (lab, stale))
            for name, cd in nd.items():
                fits = set(cd) <= set(rdims)
                should = fits and keep
                present = name in r.coords
                W.require("other-grid-coordinates-iff-fit-and-keep_coords", present == should, "%s: coordinate %s present=%s, fits=%s keep_coords=%s" % (lab, name, present, fits, keep))
                if present and should:
                    W.equal("attached-coordinate-values", r[name].transpose(*cd).data if cd else [r[name].data[()]], vals[name] if cd else [vals[name][()]], detail="%s %s" % (lab, name), record=False)
                    W.require("attached-coordinate-attrs", dict(r[name].attrs) == {"long_name": name}, "%s %s attrs %s" % (lab, name, dict(r[name].attrs)))


if __name__ == "__main__":
    sys.exit(harness.main(sys.modules[__name__]))
