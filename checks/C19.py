"""C19 Outputs are labelled with the grid's coordinates for the new position."""
import itertools
import sys
import warnings

import numpy as np
import xarray as xr

from lib import harness
from specs.stencil import plen

ID = "C19"
FUNCTIONS = ["xgcm.grid_ufunc:_reattach_coords", "xgcm.padding:_strip_all_coords", "xgcm.padding:pad", "xgcm.grid:Grid.cumsum",
             "xgcm.grid:Grid._1d_grid_ufunc_dispatch", "xgcm.grid_ufunc:apply_as_grid_ufunc", "xgcm.grid_ufunc:_apply"]
BOUNDS = {
    "quick": {"dataset": "axes X (center,left,outer,inner) and Y (center,left), extra dim t; non-dimension coordinates 0-D, 1-D on each X position, 2-D (y,x-left), 3-D, all with symbolic values and attributes; with and without dimension coordinates",
              "operations": "diff/interp/min/max on padded (center->left, left->center, center->outer) and unpadded (outer->center, center->inner) paths, cumsum (4 shifts), keep_coords True/False",
              "inputs": "carrying the dataset's coordinates, none, or other labels (symbolic non-index coordinates, shifted index labels)", "N": [2, 3]},
    "thorough": {"N": [2, 3, 4], "operations": "+ multi-axis calls"},
}
OUTSIDE = ["symbolic index (dimension-coordinate) labels: pandas indexes hash their labels", "coordinates of the input that are not coordinates of the grid dataset (statement is silent)"]
ASSUMPTIONS = ["data finite"]
POSD = {"center": "xc", "left": "xg", "outer": "xo", "inner": "xi"}
SHIFTS = [("center", "left"), ("left", "center"), ("center", "outer"), ("outer", "center"), ("center", "inner"), ("inner", "center")]


def cases(tier):
    out = []
    for N in ([2, 3] if tier == "quick" else [2, 3, 4]):
        for dimcoords in ("all", "none", "some"):
            for frm, to in SHIFTS:
                for inp in ("dataset", "none", "other"):
                    out.append(dict(N=N, dimcoords=dimcoords, frm=frm, to=to, inp=inp))
                # a grid dataset whose only non-dimension coordinates live on the target position
                out.append(dict(N=N, dimcoords=dimcoords, frm=frm, to=to, inp="none", only_on=POSD[to]))
                out.append(dict(N=N, dimcoords=dimcoords, frm=frm, to=to, inp="dataset", only_on=POSD[frm]))
    return out


def build(W, N, dimcoords, only_on=None):
    sizes = {"xc": N, "xg": N, "xo": N + 1, "xi": N - 1, "yc": 2, "yg": 2, "t": 2}
    coords = {}
    want_dim = {"all": list(sizes), "none": [], "some": ["xc", "xo", "yc"]}[dimcoords]
    for d in want_dim:
        coords[d] = xr.DataArray(np.arange(sizes[d]) * 1.0 + {"xc": 0.5, "yc": 0.5, "xi": 1.0}.get(d, 0.0), dims=[d], attrs={"units": "m", "which": d})
    ds = xr.Dataset(coords=coords)
    nd = {"scalar_c": (), "lon_c": ("xc",), "lon_g": ("xg",), "lon_o": ("xo",), "lon_i": ("xi",), "lat_c": ("yc",), "area_g": ("yc", "xg"), "area_c": ("yc", "xc"),
          "vol_c": ("t", "yc", "xc"), "tlab": ("t",)}
    if only_on is not None:
        nd = {k: v for k, v in nd.items() if only_on in v}
    vals = {}
    for name, dims in nd.items():
        arr = W.data(name, tuple(sizes[d] for d in dims))
        vals[name] = arr
        ds = ds.assign_coords({name: xr.DataArray(arr, dims=dims, attrs={"long_name": name})})
    for d in sizes:
        if d not in ds.dims:
            ds["_len_" + d] = ((d,), np.zeros(sizes[d]))
    return ds, sizes, nd, vals


def case(W, cfg):
    import xgcm
    N, frm, to = cfg["N"], cfg["frm"], cfg["to"]
    if N == 2 and "inner" in (frm, to) and False:
        return
    ds, sizes, nd, vals = build(W, N, cfg["dimcoords"], cfg.get("only_on"))
    with warnings.catch_warnings():
        warnings.simplefilter("ignore")
        grid = xgcm.Grid(ds, coords={"X": dict(POSD), "Y": {"center": "yc", "left": "yg"}}, periodic=False, boundary="extend", autoparse_metadata=False)
    old, new = POSD[frm], POSD[to]
    dims = ["t", "yc", old]
    a = W.data("a", tuple(sizes[d] for d in dims))
    base = xr.DataArray(a, dims=dims, name="tracer")
    if cfg["inp"] == "dataset":
        da = base.assign_coords({k: v for k, v in ds.coords.items() if set(v.dims) <= set(dims)})
    elif cfg["inp"] == "none":
        da = base
    else:
        other = {}
        for d in dims:
            other[d] = np.arange(sizes[d]) * 10.0 + 100.0
        other["lon_" + {"center": "c", "left": "g", "outer": "o", "inner": "i"}[frm]] = ((old,), W.data("otherlon", (sizes[old],)))
        other["mylabel"] = (("yc",), W.data("mylabel", (2,)))
        da = base.assign_coords(other)
    ref_values = {}
    for op in ("diff", "interp", "min", "max", "cumsum"):
        if op == "cumsum" and (frm, to) in (("left", "center"),) and False:
            continue
        for keep in (True, False):
            lab = "%s:%s->%s:keep=%s" % (op, frm, to, keep)
            with warnings.catch_warnings():
                warnings.simplefilter("ignore")
                try:
                    r = getattr(grid, op)(da, "X", to=to, keep_coords=keep)
                except Exception as e:  # noqa
                    W.fail("raises:%s:%s" % (type(e).__name__, op), "%s: %s" % (lab, str(e)[:200]))
                    continue
                r_plain = getattr(grid, op)(base, "X", to=to, keep_coords=keep)
            rdims = ("t", "yc", new)
            W.require("dims", tuple(r.dims) == rdims, "%s: %s" % (lab, r.dims))
            W.require("name-kept", r.name == "tracer", "%s: name %r" % (lab, r.name))
            # values never depend on the input's labels
            W.equal("values-independent-of-input-labels:" + op, r.data, r_plain.data, detail=lab, record=keep)
            # coordinate of the new dimension = the dataset's coordinate for the target position
            if new in ds.coords:
                ok = new in r.coords and list(r[new].values) == list(ds[new].values) and dict(r[new].attrs) == dict(ds[new].attrs)
                W.require("new-dim-coordinate-from-grid", ok, "%s: %s" % (lab, r.coords.get(new)))
            else:
                W.require("no-invented-coordinate", new not in r.coords, "%s: coordinate %s appeared" % (lab, new))
            if cfg["inp"] != "other":
                for d in ("t", "yc"):
                    if d in ds.coords:
                        ok = d in r.coords and list(r[d].values) == list(ds[d].values) and dict(r[d].attrs) == dict(ds[d].attrs)
                        W.require("untouched-dim-coordinate-kept", ok, "%s: dim %s -> %s" % (lab, d, r.coords.get(d)))
            stale = [k for k, v in r.coords.items() if old in v.dims]
            W.require("no-coordinate-on-abandoned-dim", not stale, "%s: stale coordinates %s" % (lab, stale))
            for name, cd in nd.items():
                fits = set(cd) <= set(rdims)
                should = fits and keep
                present = name in r.coords
                W.require("other-grid-coordinates-iff-fit-and-keep_coords", present == should, "%s: coordinate %s present=%s, fits=%s keep_coords=%s" % (lab, name, present, fits, keep))
                if present and should:
                    W.equal("attached-coordinate-values", r[name].transpose(*cd).data if cd else [r[name].data[()]], vals[name] if cd else [vals[name][()]], detail="%s %s" % (lab, name), record=False)
                    W.require("attached-coordinate-attrs", dict(r[name].attrs) == {"long_name": name}, "%s %s attrs %s" % (lab, name, dict(r[name].attrs)))


if __name__ == "__main__":
    sys.exit(harness.main(sys.modules[__name__]))
