"""C08 Linear and log transforms are exact piecewise-linear interpolation per column."""
import itertools
import sys
import warnings

import numpy as np
import xarray as xr
import z3

from lib import harness
from sx import npshim
from sx.core import SBool, SReal, lift
from checks.C07 import dasked, make_grid

ID = "C08"
FUNCTIONS = ["xgcm.transform:_interp_1d_linear", "xgcm.transform:interp_1d_linear", "xgcm.transform:linear_interpolation",
             "xgcm.transform:input_handling", "xgcm.transform:transform", "xgcm.grid:Grid.transform"]
BOUNDS = {
    "quick": {"single column": "n<=3 data points x m<=3 levels, increasing and decreasing target_data, mask_edges on/off, bypass_checks (increasing only), method linear and log; everything symbolic (phi, target_data, levels in any order)",
              "structure": "2 columns of opposite direction (n=3,m=2), extra-dim order, N-D target with target_dim, DataArray / bare-array target, dask chunks over the extra dim (concrete levels), name + suffix"},
    "thorough": {"single column": "n<=5, m<=4", "structure": "n=4, m=3"},
}
OUTSIDE = ["non-monotonic target_data", "bypass_checks=True with decreasing data (documented as the caller's responsibility)",
           "NaN inside target_data", "float32", "numba nopython semantics", "float rounding"]
ASSUMPTIONS = ["target_data strictly monotonic and finite per column", "for method='log': target_data and levels positive; log is an uninterpreted strictly monotone function",
               "np.interp model: clamped piecewise-linear interpolation on increasing xp (validated against numpy per run)"]
MAX_PATHS = 200000
SWEEPS = {"int64": 1}


def sweep_applies(cfg, flavor):
    return cfg.get("method", "linear") == "linear" or cfg.get("kind") == "struct"


def cases(tier):
    out = []
    sizes = [(2, 1), (2, 2), (3, 2), (3, 3)] if tier == "quick" else [(2, 1), (2, 2), (3, 2), (3, 3), (4, 3), (5, 3), (4, 4), (5, 4)]
    for n, m in sizes:
        for direction in ("inc", "dec"):
            for mask in (True, False):
                for method in ("linear", "log"):
                    if method == "log" and n * m > 9:
                        continue
                    out.append(dict(kind="col", n=n, m=m, dir=direction, mask=mask, method=method, bypass=False))
        out.append(dict(kind="col", n=n, m=m, dir="inc", mask=True, method="linear", bypass=True))
    for (n, m) in ([(3, 2)] if tier == "quick" else [(3, 2), (4, 3)]):
        for variant in ("tz", "zt", "nd-target", "xarray-target", "dask", "bare-noname", "suffix", "axis-coordinate"):
            out.append(dict(kind="struct", n=n, m=m, variant=variant))
    return out


def case(W, cfg):
    return case_col(W, cfg) if cfg["kind"] == "col" else case_struct(W, cfg)


def draw(W, n, m, direction, tag="", log=False, concrete_levels=False):
    phi = W.data("phi" + tag, (n,))
    if W.sym:
        th = W.data("th" + tag, (n,))
        for k in range(n - 1):
            W.assume((th[k] < th[k + 1]) if direction == "inc" else (th[k] > th[k + 1]))
        if log:
            for t in th:
                W.assume(t > 0)
    else:
        raw = W.data("th" + tag, (n,), gen=lambda r: r.randint(1, 40) / 4.0)
        if not all(("th%s_%d" % (tag, k)) in W.env for k in range(n)):
            vals = sorted(set(float(x) for x in raw))
            while len(vals) < n:
                vals.append(vals[-1] + 0.75)
            vals = vals[:n] if direction == "inc" else vals[:n][::-1]
            for k in range(n):
                W.used["th%s_%d" % (tag, k)] = vals[k]
            raw = np.array(vals)
        th = raw
        W.assume(all((th[k] < th[k + 1]) if direction == "inc" else (th[k] > th[k + 1]) for k in range(n - 1)))
        if log:
            W.assume(all(t > 0 for t in th))
    if not W.sym and W.flavor == "int64":
        # integer-typed data and target_data, target levels that are not integers
        th = np.asarray(th).astype(np.int64) * 3
        W.assume(all((th[k] < th[k + 1]) if direction == "inc" else (th[k] > th[k + 1]) for k in range(n - 1)))
        lev = np.array([float(th.min()) - 1.25 + (float(th.max() - th.min()) + 2.5) * (i + 0.37) / m for i in range(m)])[::-1].copy()
        return phi, th, lev
    if concrete_levels:
        lev = np.array([0.5 + 2.25 * i for i in range(m)])[::-1].copy()
    else:
        pool = list(th) if not W.sym else None
        lev = W.data("lev", (m,), gen=(lambda r: (r.choice(pool) if r.random() < 0.35 else r.randint(1, 44) / 4.0)) if pool else None)
        if log:
            for t in lev:
                W.assume(t > 0)
    return phi, th, lev


def spec_interp(phi, th, t, mask, F=lambda x: x):
    """oracle for one level t: (is_nan_condition, value) in increasing order of target_data.
    F maps coordinates to the space the interpolation is linear in (identity / log)."""
    n = len(th)
    if lt(th[n - 1], th[0]):
        th, phi = th[::-1], phi[::-1]
    return th, phi


def lt(a, b):
    r = a < b
    return r


def oracle_level(W, phi, th, t, mask, direction, F):
    """returns ('nan', None) / ('val', value) lists as a symbolic case analysis:
    list of (condition, value_or_None) covering all cases"""
    n = len(th)
    if direction == "dec":
        th, phi = list(th)[::-1], list(phi)[::-1]
    X = [F(x) for x in th]
    T = F(t)
    cases_ = []
    cases_.append(("below", T < X[0], None if mask else phi[0]))
    cases_.append(("above", T > X[n - 1], None if mask else phi[n - 1]))
    for k in range(n - 1):
        val = phi[k] + (T - X[k]) * (phi[k + 1] - phi[k]) / (X[k + 1] - X[k])
        cases_.append(("seg%d" % k, (T >= X[k]) & (T <= X[k + 1]) if W.sym else (T >= X[k] and T <= X[k + 1]), val))
    return cases_


def check_column(W, label, got, phi, th, lev, mask, direction, method):
    if method == "log":
        F = (lambda x: SReal(npshim._LOG(lift(x)))) if W.sym else (lambda x: float(np.log(x)))
    else:
        F = lambda x: x  # noqa
    for i in range(len(lev)):
        g = got[i]
        g_nan = isinstance(g, (float, np.floating)) and g != g
        for name, cond, val in oracle_level(W, phi, th, lev[i], mask, direction, F):
            lab = "%s:level%d" % (label, i)
            if W.sym:
                c = cond.t if isinstance(cond, SBool) else z3.BoolVal(bool(cond))
                if val is None:
                    # in this region the result must be NaN: on a path whose result is a number the region is unreachable
                    if not g_nan:
                        W.require(lab + ":nan-outside-range", SBool(z3.Not(c)), "level in region '%s' but result is %s" % (name, g))
                else:
                    if g_nan:
                        W.require(lab + ":value-inside-range", SBool(z3.Not(c)), "level in region '%s' but result is NaN" % name)
                    else:
                        W.require(lab + ":interpolant", SBool(z3.Implies(c, lift(g) == lift(val))), "region %s: got %s" % (name, g))
            else:
                if not cond:
                    continue
                if val is None:
                    W.require(lab + ":nan-outside-range", g_nan, "level %r in region '%s' but result is %r" % (lev[i], name, g))
                elif g_nan:
                    W.require(lab + ":value-inside-range", False, "level %r in region '%s' but result is NaN" % (lev[i], name))
                else:
                    W.require(lab + ":interpolant", abs(g - val) <= 1e-9 * max(1, abs(g), abs(val)), "region %s: got %r want %r" % (name, g, val))


def log_axioms(W, terms):
    """strict monotonicity of the uninterpreted log on the terms it is applied to"""
    if not W.sym:
        return
    ts = [lift(t) for t in terms]
    for i in range(len(ts)):
        for j in range(i + 1, len(ts)):
            a, b = ts[i], ts[j]
            W.assume(z3.And((a < b) == (npshim._LOG(a) < npshim._LOG(b)), (a == b) == (npshim._LOG(a) == npshim._LOG(b))))


def case_col(W, cfg):
    n, m, direction, mask, method = cfg["n"], cfg["m"], cfg["dir"], cfg["mask"], cfg["method"]
    phi, th, lev = draw(W, n, m, direction, log=(method == "log"))
    if method == "log":
        log_axioms(W, list(th) + list(lev))
    grid = make_grid(n)
    pda = xr.DataArray(phi, dims=["zc"], name="phi")
    tda = xr.DataArray(th, dims=["zc"], name="theta")
    kw = dict(method=method, mask_edges=mask)
    if cfg["bypass"]:
        kw["bypass_checks"] = True
    r = grid.transform(pda, "Z", lev, target_data=tda, **kw)
    W.require("col:dims", tuple(r.dims) == ("theta",) and r.sizes["theta"] == m, "%s %s" % (r.dims, dict(r.sizes)))
    W.require("col:name", r.name == "phi_transformed", "result name %r, want 'phi_transformed'" % (r.name,))
    check_column(W, "col", list(r.data), list(phi), list(th), list(lev), mask, direction, method)
    W.record("col:out", [("nan" if (isinstance(x, float) and x != x) else x) for x in r.data])


def case_struct(W, cfg):
    n, m, variant = cfg["n"], cfg["m"], cfg["variant"]
    conc = variant == "dask"
    phi0, th0, lev = draw(W, n, m, "inc", tag="0", concrete_levels=conc)
    phi1, th1, _ = draw(W, n, m, "dec", tag="1", concrete_levels=conc)
    grid = make_grid(n, {"t": [0, 1]})
    phi, th = np.stack([phi0, phi1]), np.stack([th0, th1])
    pda = xr.DataArray(phi, dims=["t", "zc"], name="phi")
    tda = xr.DataArray(th, dims=["t", "zc"], name="theta")
    target, kw, newdim, name = lev, {}, "theta", "phi_transformed"
    levs = [lev, lev]
    if variant == "zt":
        pda, tda = pda.transpose("zc", "t"), tda.transpose("zc", "t")
    elif variant == "xarray-target":
        target = xr.DataArray(lev, dims=["rho"], coords={"rho": np.arange(m)})
        newdim = "rho"
    elif variant == "nd-target":
        lev1 = W.data("levb", (m,))
        levs = [lev, lev1]
        target = xr.DataArray(np.stack([lev, lev1]), dims=["t", "rho"])
        kw["target_dim"] = "rho"
        newdim = "rho"
    elif variant == "dask":
        pda, tda = dasked(pda, {"t": 1}), dasked(tda, {"t": 1})
    elif variant == "bare-noname":
        tda = xr.DataArray(th, dims=["t", "zc"])
        newdim = "TRANSFORMED_DIMENSION"
    elif variant == "suffix":
        kw["suffix"] = "_on_rho"
        name = "phi_on_rho"
    cols = ((phi0, th0, "inc"), (phi1, th1, "dec"))
    if variant == "axis-coordinate":
        # target_data omitted: the data are interpolated against the grid dataset's own coordinate of the axis
        # (concrete: it is an index), onto symbolic levels given on a dimension of their own
        zc = [float(x) for x in grid._ds["zc"].values]
        target = xr.DataArray(lev, dims=["rho"])
        newdim = "rho"
        if W.sym:
            pass
        cols = ((phi0, zc, "inc"), (phi1, zc, "inc"))
        r = grid.transform(pda, "Z", target, method="linear", mask_edges=True)
    else:
        r = grid.transform(pda, "Z", target, target_data=tda, method="linear", mask_edges=True, **kw)
    W.require("struct:dims:" + variant, set(r.dims) == {"t", newdim} and r.sizes[newdim] == m, "%s %s" % (r.dims, dict(r.sizes)))
    W.require("struct:name:" + variant, r.name == name, "result name %r, want %r" % (r.name, name))
    if variant == "dask":
        W.require("struct:lazy", hasattr(r.data, "dask"), "not lazy")
        r = r.compute(scheduler="synchronous")
    if set(r.dims) != {"t", newdim}:
        return
    rr = r.transpose("t", newdim).data
    for c, (p_, t_, d_) in enumerate(cols):
        check_column(W, "struct:%s:col%d" % (variant, c), list(rr[c]), list(p_), list(t_), list(levs[c]), True, d_, "linear")
        if W.sym:
            other = "phi%d" % (1 - c)
            bad = [str(x) for x in rr[c] if isinstance(x, SReal) and other in str(x.t)]
            W.require("struct:no-cross-column-symbols", not bad, str(bad[:1]))
    W.record("struct:out", [("nan" if (isinstance(x, float) and x != x) else x) for x in rr.ravel()])


if __name__ == "__main__":
    sys.exit(harness.main(sys.modules[__name__]))
