"""C05 Halo cells across every kind of face link come from the documented cell."""
import itertools
import sys
import warnings

import numpy as np
import xarray as xr

from lib import harness
from specs.stencil import spec_pad1d
from specs.topology import OTHER, halo_sign, halo_source, make_two_face_table

ID = "C05"
FUNCTIONS = ["xgcm.padding:pad", "xgcm.padding:_pad_face_connections", "xgcm.padding:_pad_basic",
             "xgcm.padding:_maybe_swap_dimension_names", "xgcm.padding:_maybe_rename_grid_positions",
             "xgcm.padding:_get_all_connection_axes", "xgcm.padding:_strip_all_coords", "xgcm.grid:Grid._assign_face_connections"]
BOUNDS = {
    "quick": {"tables": "all 8 link kinds, 2 faces with the reciprocal link; chains of 3 faces and rings of 2 faces (all 64 kind pairs that fit)",
              "N": [2, 3], "widths": "every (lo,hi) in {0..min(3,N)}^2 on one axis x 3 width pairs on the other, both ways",
              "rules": ["fill (symbolic fill value)", "extend", "periodic"], "inputs": "scalar and both vector components",
              "dims": "face dim first / after an extra dim / between"},
    "thorough": {"tables": "2 faces: all 8 kinds; chains and rings of 3-6 faces mixing kinds (deterministic enumeration, VERIF_SEED sample for 5-6)",
                 "N": [2, 3, 4], "widths": "full product of (lo,hi) in {0..min(3,N)}^2 on both axes for N<=3"},
}
OUTSIDE = ["corner cells of the halo (covered by C12 only)", "non-square faces", "widths > min(3,N)", "more than 6 faces"]
ASSUMPTIONS = ["input data finite"]
SWEEPS = {"nan": 6, "int64": 11}
KINDS = list(itertools.product((0, 1), ("X", "Y"), (False, True), (False, True)))


def chain_table(kinds, ring=False):
    """faces 0..F-1, junction i joins face i to face i+1 with kind kinds[i]; None if a slot is taken twice"""
    F = len(kinds) + (0 if ring else 1)
    t = {f: {"X": [None, None], "Y": [None, None]} for f in range(F)}
    for i, (side, ax, swapped, rev) in enumerate(kinds):
        f, g = i, (i + 1) % F
        ax1 = OTHER[ax] if swapped else ax
        side1 = side if rev else 1 - side
        if t[f][ax][side] is not None or t[g][ax1][side1] is not None or (f == g):
            return None
        t[f][ax][side] = (g, ax1, rev)
        t[g][ax1][side1] = (f, ax, rev)
    return {f: {a: tuple(p) for a, p in d.items() if any(x is not None for x in p)} for f, d in t.items()}


def jt(table):
    return {str(f): {a: [list(l) if l else None for l in p] for a, p in d.items()} for f, d in table.items()}


def unjt(j):
    return {int(f): {a: tuple(tuple(l) if l else None for l in p) for a, p in d.items()} for f, d in j.items()}


def width_sets(N, full):
    m = min(3, N)
    allw = list(itertools.product(range(m + 1), repeat=2))
    few = [(0, 0), (m, 1), (1, m)]
    if full:
        return [(wx, wy) for wx in allw for wy in allw if (wx, wy) != ((0, 0), (0, 0))]
    out = [(wx, wy) for wx in allw for wy in few] + [(wx, wy) for wx in few for wy in allw]
    return sorted(set(w for w in out if w != ((0, 0), (0, 0))))


def cases(tier):
    import random
    out = []
    layouts_ = ["fyx", "tfyx", "yfxt"]
    for kind in KINDS:
        table = jt(make_two_face_table(*kind))
        for N in ([2, 3] if tier == "quick" else [2, 3, 4]):
            ws = width_sets(N, full=(tier == "thorough" and N <= 3))
            for rule in ("fill", "extend", "periodic"):
                for vector in (False, True):
                    for lay in (layouts_ if (N == 2 or tier == "thorough") else layouts_[:1]):
                        # split the width sets into chunks to balance the pool
                        for c in range(0, len(ws), 40):
                            out.append(dict(kind="pair:%s" % (kind,), table=table, F=2, N=N, rule=rule, vector=vector, lay=lay,
                                            ws=[[list(a), list(b)] for a, b in ws[c:c + 40]]))
    # multi-face tables
    seed = int(__import__("os").environ.get("VERIF_SEED", "0"))
    rng = random.Random(seed)
    multi = []
    for k2 in itertools.product(KINDS, repeat=2):
        t = chain_table(list(k2))
        if t is not None:
            multi.append(("chain3", t))
        # rings of two faces: both junctions join the same two faces, so a face may name the same neighbour (even the
        # same link triple) on both of its sides
        t = chain_table(list(k2), ring=True)
        if t is not None:
            multi.append(("ring2", t))
    if tier == "thorough":
        for k3 in itertools.product(KINDS, repeat=3):
            t = chain_table(list(k3), ring=True)
            if t is not None:
                multi.append(("ring3", t))
        for F in (4, 5, 6):
            allk = list(itertools.product(KINDS, repeat=F - 1))
            for ks in rng.sample(allk, 60):
                t = chain_table(list(ks))
                if t is not None:
                    multi.append(("chain%d" % F, t))
            for ks in rng.sample(list(itertools.product(KINDS, repeat=F)) if F == 4 else [tuple(rng.choice(KINDS) for _ in range(F)) for _ in range(400)], 60):
                t = chain_table(list(ks), ring=True)
                if t is not None:
                    multi.append(("ring%d" % F, t))
    for name, t in multi:
        F = len(t)
        for rule in ("fill", "extend", "periodic") if tier == "thorough" else ("extend",):
            for vector in (False, True):
                out.append(dict(kind=name, table=jt(t), F=F, N=2, rule=rule, vector=vector, lay="fyx",
                                ws=[[[1, 2], [2, 1]], [[0, 1], [2, 0]], [[2, 2], [0, 0]]]))
    return out


def case(W, cfg):
    import xgcm
    from xgcm.padding import pad
    table, F, N, rule = unjt(cfg["table"]), cfg["F"], cfg["N"], cfg["rule"]
    lay = cfg["lay"]
    ds = xr.Dataset(coords={"face": np.arange(F), "xc": np.arange(N) + 0.5, "yc": np.arange(N) + 0.5, "t": [0, 1]})
    with warnings.catch_warnings():
        warnings.simplefilter("ignore")
        # a non-zero grid-level fill value: a per-call value (any number, zero included) must win over it
        grid = xgcm.Grid(ds, coords={"X": {"center": "xc"}, "Y": {"center": "yc"}}, periodic=False, boundary=rule, fill_value=2.5,
                         face_connections={"face": table}, autoparse_metadata=False)
    fv = W.scalar("fv")
    # every other case gives the fill value per axis (two different symbols)
    per_axis = (cfg["N"] + len(cfg["lay"]) + int(cfg["vector"])) % 2 == 1
    fvs = {"X": W.scalar("fvx"), "Y": W.scalar("fvy")} if per_axis else {"X": fv, "Y": fv}
    fill_arg = dict(fvs) if per_axis else fv
    dims = {"f": "face", "y": "yc", "x": "xc", "t": "t"}
    order = [dims[c] for c in lay]
    shape = [{"face": F, "yc": N, "xc": N, "t": 2}[d] for d in order]
    A = W.data("a", shape)
    B = W.data("b", shape) if cfg["vector"] else None
    da = xr.DataArray(A, dims=order)
    db = xr.DataArray(B, dims=order) if cfg["vector"] else None
    canon = ["t", "face", "yc", "xc"] if "t" in order else ["face", "yc", "xc"]
    Ac = da.transpose(*canon).data
    Bc = db.transpose(*canon).data if cfg["vector"] else None
    if "t" not in order:
        Ac = Ac[None]
        Bc = Bc[None] if Bc is not None else None
    nt = Ac.shape[0]
    for wX, wY in cfg["ws"]:
        widths = {"X": tuple(wX), "Y": tuple(wY)}
        (lx, hx), (ly, hy) = widths["X"], widths["Y"]
        for comp in ([None] if not cfg["vector"] else ["X", "Y"]):
            lab = "%s:%s:%s" % ("scalar" if comp is None else "comp" + comp, widths["X"], widths["Y"])
            if comp is None:
                r = pad(da, grid, boundary_width=widths, boundary=rule, fill_value=fill_arg)
                own, partner = Ac, None
            else:
                own, partner = (Ac, Bc) if comp == "X" else (Bc, Ac)
                d_own, d_par = (da, db) if comp == "X" else (db, da)
                r = pad({comp: d_own}, grid, boundary_width=widths, boundary=rule, fill_value=fill_arg,
                        other_component={OTHER[comp]: d_par})
            W.require("dims:" + lab, set(r.dims) == set(order), "dims %s" % (r.dims,))
            rc = r.transpose(*canon).data
            if "t" not in order:
                rc = rc[None]
            want_shape = (nt, F, N + ly + hy, N + lx + hx)
            W.require("shape:" + lab, tuple(rc.shape) == want_shape, "shape %s want %s" % (rc.shape, want_shape))
            if tuple(rc.shape) != want_shape:
                continue
            got, want = [], []
            for tt in range(nt):
                for f in range(F):
                    for J in range(-ly, N + hy):
                        for I in range(-lx, N + hx):
                            outX, outY = not (0 <= I < N), not (0 <= J < N)
                            if outX and outY:
                                continue  # corner: excluded by the property's quantifier
                            g_ = rc[tt, f, J + ly, I + lx]
                            if not outX and not outY:
                                e_ = own[tt, f, J, I]
                            else:
                                a = "X" if outX else "Y"
                                idx, p = (I, J) if outX else (J, I)
                                sd = 1 if idx >= N else 0
                                k = idx - N + 1 if sd else -idx
                                src = halo_source(table, f, a, sd, k, p, N)
                                if src is None:
                                    line = [own[tt, f, J, i] for i in range(N)] if outX else [own[tt, f, j, I] for j in range(N)]
                                    lo, hi = widths[a]
                                    e_ = spec_pad1d(line, lo, hi, rule, fvs[a])[idx + lo]
                                else:
                                    g, ni, ai, axg, swp, rv = src
                                    arr = own if (comp is None or not swp) else partner
                                    e_ = arr[tt, g, ai, ni] if axg == "X" else arr[tt, g, ni, ai]
                                    if comp is not None and halo_sign(comp, a, swp, rv) < 0:
                                        e_ = -e_
                            got.append(g_)
                            want.append(e_)
            W.equal("halo:" + lab, got, want)


if __name__ == "__main__":
    sys.exit(harness.main(sys.modules[__name__]))
