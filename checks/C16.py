"""C16 The metric registry reflects exactly what was registered, in any batching."""
import copy
import itertools
import sys
import warnings

import numpy as np
import xarray as xr

from lib import harness

ID = "C16"
FUNCTIONS = ["xgcm.grid:Grid.set_metrics", "xgcm.grid:Grid.__init__", "xgcm.grid:Grid.get_metric"]
BOUNDS = {
    "quick": {"inductive step": "pre-state = every valid registry for axis set (X,) over a pool of 5 variables on 3 positions (2 alternates) reached through the constructor or set_metrics; then one call naming 1-3 variables at pairwise different positions, overwrite True/False, compared with the same variables registered one at a time in every grouping",
              "second axis set": "(X,Y) with 5 variables on all 4 position combinations (1 alternate), pre-states of <= 2", "queries": "get_metric at every position with symbolic metric values"},
    "thorough": {"histories": "+ every history of <= 4 calls (1-2 variables each, overwrite T/F) over a pool of 4 for (X,) and 2 for (X,Y)"},
}
OUTSIDE = ["calls naming two variables at the same position", "pools larger than stated", "more than 2 axis sets"]
ASSUMPTIONS = ["metric values positive (for the get_metric comparison)"]
POOL = {  # name -> (axes, dims)
    "dx_c": (("X",), ("xc",)), "dx_c2": (("X",), ("xc",)), "dx_l": (("X",), ("xg",)), "dx_l2": (("X",), ("xg",)), "dx_o": (("X",), ("xo",)),
    "a_cc": (("X", "Y"), ("yc", "xc")), "a_cc2": (("X", "Y"), ("yc", "xc")), "a_lc": (("X", "Y"), ("yc", "xg")),
    # the remaining position combinations of the two-axis set: slots are (axis, position) pairs, so X-left/Y-centre and
    # X-centre/Y-left are different slots although they use the same position words
    "a_cl": (("X", "Y"), ("yg", "xc")), "a_ll": (("X", "Y"), ("yg", "xg")),
}
SIZES = {"xc": 2, "xg": 2, "xo": 3, "yc": 2, "yg": 2}


class Refused(Exception):
    pass


def spec_register(model, key, names, overwrite):
    """the registry semantics of the statement: one variable at a time, in order"""
    for nm in names:
        lst = model.setdefault(key, [])
        slot = frozenset(POOL[nm][1])
        occ = [i for i, x in enumerate(lst) if frozenset(POOL[x][1]) == slot]
        if occ:
            if not overwrite:
                raise Refused(nm)
            lst[occ[0]] = nm
        else:
            lst.append(nm)


def selections(names, kmax):
    """ordered selections of 1..kmax names at pairwise different positions"""
    out = []
    for k in range(1, kmax + 1):
        for sel in itertools.permutations(names, k):
            if len({frozenset(POOL[n][1]) for n in sel}) == k:
                out.append(list(sel))
    return out


def groupings(lst):
    """all ways of cutting the list into consecutive groups"""
    n = len(lst)
    out = []
    for cuts in itertools.product((0, 1), repeat=n - 1):
        g, cur = [], [lst[0]]
        for i, c in enumerate(cuts):
            if c:
                g.append(cur)
                cur = []
            cur.append(lst[i + 1])
        g.append(cur)
        out.append(g)
    return out


def cases(tier):
    out = []
    xnames = [n for n in POOL if POOL[n][0] == ("X",)]
    pre = [[]] + selections(xnames, 3)
    for p in pre:
        for via in ("ctor", "calls", "ctor-split"):
            if via == "ctor" and not p:
                continue
            if via == "ctor-split" and len(p) < 2:
                continue
            out.append(dict(kind="step", key=["X"], pre=p, via=via))
    anames = [n for n in POOL if POOL[n][0] == ("X", "Y")]
    for p in [[]] + selections(anames, 2):
        out.append(dict(kind="step", key=["X", "Y"], pre=p, via="calls"))
        if len(p) >= 2:
            out.append(dict(kind="step", key=["X", "Y"], pre=p, via="ctor-split"))
    out.append(dict(kind="ctor-entries"))
    if tier == "thorough":
        calls = []
        small = ["dx_c", "dx_c2", "dx_l", "dx_o"]
        for sel in selections(small, 2):
            for ow in (False, True):
                calls.append((["X"], sel, ow))
        for sel in selections(["a_cc", "a_cc2"], 1):
            for ow in (False, True):
                calls.append((["X", "Y"], sel, ow))
        # histories of up to 4 calls: first two calls enumerated per case, the rest inside
        for c1 in calls:
            for c2 in calls:
                out.append(dict(kind="hist", first=[list(c1), list(c2)], ncalls=len(calls)))
    return out


def build(W):
    ds = xr.Dataset(coords={d: np.arange(n) * 1.0 for d, n in SIZES.items()})
    for name, (axes, dims) in POOL.items():
        arr = W.data(name, tuple(SIZES[d] for d in dims), gen=lambda r: r.randint(2, 30) / 4.0)
        if W.sym:
            for x in arr.ravel():
                W.assume(x.t > 0)
        ds[name] = (dims, arr)
    return ds


def new_grid(ds, metrics=None):
    import xgcm
    with warnings.catch_warnings():
        warnings.simplefilter("ignore")
        return xgcm.Grid(ds, coords={"X": {"center": "xc", "left": "xg", "outer": "xo"}, "Y": {"center": "yc", "left": "yg"}},
                         periodic=False, metrics=metrics, autoparse_metadata=False)


def observed(grid):
    return {tuple(sorted(k)): [v.name for v in lst] for k, lst in grid._metrics.items()}


def model_obs(model):
    return {tuple(sorted(k)): list(v) for k, v in model.items()}


def apply_calls(grid, calls):
    """calls: list of (key, names, overwrite); returns 'ok' or the exception type name of the first refused call"""
    for key, names, ow in calls:
        try:
            grid.set_metrics(tuple(key) if len(key) > 1 else key[0], list(names) if len(names) > 1 else names[0], overwrite=ow)
        except Exception as e:  # noqa
            return type(e).__name__
    return "ok"


def apply_model(model, calls):
    for key, names, ow in calls:
        try:
            spec_register(model, frozenset(key), names, ow)
        except Refused:
            return "refused"
    return "ok"


def queries(W, grid, label):
    """get_metric at every position; returns list of (tag, flat terms | exception name)"""
    out = []
    ds = grid._ds
    for dims in (("xc",), ("xg",), ("xo",), ("yc", "xc"), ("yc", "xg"), ("yg", "xc"), ("yg", "xg"), ("yg", "xo")):
        arr = xr.DataArray(np.zeros(tuple(SIZES[d] for d in dims)), dims=dims)
        for req in (("X",), ("X", "Y")):
            if "Y" in req and len(dims) == 1:
                continue
            with warnings.catch_warnings():
                warnings.simplefilter("ignore")
                try:
                    m = grid.get_metric(arr, req)
                    out.append(("%s@%s" % ("".join(req), ",".join(dims)), list(m.transpose(*[d for d in dims if d in m.dims]).data.ravel())))
                except Exception as e:  # noqa
                    out.append(("%s@%s" % ("".join(req), ",".join(dims)), type(e).__name__))
    return out


def compare_queries(W, label, qa, qb):
    for (ta, va), (tb, vb) in zip(qa, qb):
        if isinstance(va, str) or isinstance(vb, str):
            W.require("get_metric-same-outcome:" + label, va == vb, "%s: %s vs %s" % (ta, va if isinstance(va, str) else "value", vb if isinstance(vb, str) else "value"))
        else:
            W.equal("get_metric-same-value:" + label, va, vb, detail=ta, record=False)


def case_ctor_entries(W, ds):
    """constructor entries are registrations in dict order, whatever the spelling of the axis set"""
    for entries in ([("X", ["dx_c"]), (("X",), ["dx_c2"])], [("X", ["dx_c", "dx_l"]), (("X",), ["dx_o", "dx_l2"])], [(("X",), ["dx_l"]), ("X", ["dx_c"])],
                    [(("X", "Y"), ["a_cc"]), (("Y", "X"), ["a_lc"])], [(("X", "Y"), ["a_cc"]), (("Y", "X"), ["a_cc2"])], [(("Y", "X"), ["a_lc"]), (("X", "Y"), ["a_cc", "a_lc"])],
                    [("X", ["dx_c"]), (("X", "Y"), ["a_cc"]), (("X",), ["dx_l"]), (("Y", "X"), ["a_lc"])]):
        model = {}
        want = "ok"
        for k, names in entries:
            key = frozenset([k] if isinstance(k, str) else k)
            try:
                spec_register(model, key, names, False)
            except Refused:
                want = "refused"
                break
        try:
            g = new_grid(ds, metrics=dict(entries))
            got = "ok"
        except ValueError:
            got, g = "refused", None
        lab = str(entries)
        W.require("ctor-entries-outcome", got == want, "Grid(metrics=%s): %s, specification says %s" % (lab, got, want))
        if g is not None and want == "ok":
            W.require("ctor-entries-registry", observed(g) == model_obs(model), "Grid(metrics=%s): registry %s want %s" % (lab, observed(g), model_obs(model)))


def case(W, cfg):
    ds = build(W)
    if cfg["kind"] == "hist":
        return case_hist(W, cfg, ds)
    if cfg["kind"] == "ctor-entries":
        return case_ctor_entries(W, ds)
    key = cfg["key"]
    pre = cfg["pre"]
    names = [n for n in POOL if list(POOL[n][0]) == key]

    def fresh():
        """a grid in the pre-state"""
        if cfg["via"] == "ctor-split":
            # two constructor entries for the same axis set, spelled differently: registered one after the other
            k1 = key[0] if len(key) == 1 else tuple(key)
            k2 = tuple(key) if len(key) == 1 else tuple(key[::-1])
            g = new_grid(ds, metrics={k1: list(pre[:1]), k2: list(pre[1:])})
        elif cfg["via"] == "ctor":
            g = new_grid(ds, metrics={tuple(key): list(pre)})
        else:
            g = new_grid(ds)
            for nm in pre:
                g.set_metrics(tuple(key) if len(key) > 1 else key[0], nm)
        return g

    model0 = {}
    if pre:
        spec_register(model0, frozenset(key), pre, False)
    g0 = fresh()
    W.require("pre-state", observed(g0) == model_obs(model0), "pre-state %s, model %s" % (observed(g0), model_obs(model0)))
    kmax = 3 if len(key) == 1 else 2
    for sel in selections(names, kmax):
        for ow in (False, True):
            lab = "%s|+%s|ow=%s" % (",".join(pre), ",".join(sel), ow)
            model = copy.deepcopy(model0)
            want_out = apply_model(model, [(key, sel, ow)])
            results = []
            for grouping in groupings(sel):
                g = fresh()
                out = apply_calls(g, [(key, grp, ow) for grp in grouping])
                results.append((grouping, out, observed(g), g))
            for grouping, out, obs, g in results:
                glab = "batch" if len(grouping) == 1 else "groups=%s" % ("/".join(str(len(x)) for x in grouping))
                W.require("outcome:" + ("refused" if want_out != "ok" else "accepted"), (out == "ok") == (want_out == "ok"),
                          "%s [%s]: set_metrics %s, specification says %s" % (lab, glab, out, want_out))
                W.require("registry", obs == model_obs(model),
                          "%s [%s]: registry %s, want %s (each slot holds the most recent registrant; refused registration leaves it)" % (lab, glab, obs, model_obs(model)))
            # get_metric depends only on the final registry, not on what was asked before: the same registrations on a
            # grid that is queried (every position, interpolating where it must) before and between the calls
            if (len(pre) + len(sel)) <= 3:
                g_obs = fresh()
                queries(W, g_obs, lab)
                for grp in groupings(sel)[-1]:
                    if apply_calls(g_obs, [(key, grp, ow)]) != "ok":
                        break  # like the unobserved twin: a refused call ends the sequence
                    queries(W, g_obs, lab)
                W.require("registry-observed", observed(g_obs) == results[-1][2], "%s: registry of a grid that was queried in between %s vs %s" % (lab, observed(g_obs), results[-1][2]))
                compare_queries(W, "queried-in-between-vs-not", queries(W, g_obs, lab), queries(W, results[-1][3], lab))
            # get_metric depends only on the final registry: batch vs one-at-a-time
            if len(results) > 1 and len(sel) >= 2 and (len(pre) + len(sel)) <= 4:
                qa = queries(W, results[0][3], lab)
                qb = queries(W, results[-1][3], lab)
                compare_queries(W, "batch-vs-single", qa, qb)


def case_hist(W, cfg, ds):
    small = ["dx_c", "dx_c2", "dx_l", "dx_o"]
    calls = []
    for sel in selections(small, 2):
        for ow in (False, True):
            calls.append((["X"], sel, ow))
    for sel in selections(["a_cc", "a_cc2"], 1):
        for ow in (False, True):
            calls.append((["X", "Y"], sel, ow))
    first = [(c[0], c[1], c[2]) for c in cfg["first"]]
    import random
    rng = random.Random(hash(str(cfg["first"])) & 0xFFFF)
    tails = [[]] + [[c] for c in calls] + [[rng.choice(calls), rng.choice(calls)] for _ in range(40)]
    for tail in tails:
        hist = first + tail
        model = {}
        g = new_grid(ds)
        one = new_grid(ds)
        ok = True
        for (key, sel, ow) in hist:
            m2 = copy.deepcopy(model)
            want = apply_model(m2, [(key, sel, ow)])
            model = m2
            out = apply_calls(g, [(key, sel, ow)])
            out1 = apply_calls(one, [(key, [nm], ow) for nm in sel])
            W.require("hist-outcome", (out == "ok") == (want == "ok") and (out1 == "ok") == (want == "ok"), "history %s: %s / %s, specification %s" % (hist, out, out1, want))
            W.require("hist-registry", observed(g) == model_obs(model) and observed(one) == model_obs(model),
                      "history %s: batch %s single %s want %s" % (hist, observed(g), observed(one), model_obs(model)))


def finding_key(cfg, v):
    if v["label"] in ("registry", "get_metric-same-value:batch-vs-single", "hist-registry"):
        return "batch-into-existing-key-keeps-last"
    return v["label"]


if __name__ == "__main__":
    sys.exit(harness.main(sys.modules[__name__]))
