"""C03 Scalar operations are invariant to how the domain is cut into faces."""
import itertools
import sys
import warnings

import numpy as np
import xarray as xr

from lib import harness
from specs.stencil import OPS, edges_held, plen
from specs.topology import D4, Decomp, expressible_orientations

ID = "C03"
FUNCTIONS = ["xgcm.padding:_pad_face_connections", "xgcm.padding:_maybe_swap_dimension_names", "xgcm.padding:pad",
             "xgcm.padding:_pad_basic", "xgcm.grid:Grid._assign_face_connections", "xgcm.grid:Grid._1d_grid_ufunc_dispatch",
             "xgcm.grid_ufunc:apply_as_grid_ufunc", "xgcm.grid_ufunc:_pad_then_rechunk", "xgcm.grid:_select_grid_ufunc"]
BOUNDS = {
    "quick": {"decompositions": "(1,1): all 8 orientations of a single (self-linked when periodic) face, (2,1),(1,2): all 64 D4 orientation pairs, (2,2): all 4096 quadruples; those expressible in the link format are run (counted in evidence), open and periodic domain",
              "N": [2], "rules on unlinked edges": ["fill (symbolic)", "extend", "periodic"], "operators": ["diff", "min"], "to": ["left", "outer"],
              "face dim position": ["first", "after extra dim", "before extra dim"]},
    "thorough": {"decompositions": "+ (3,1),(1,3) all 512 triples each, (3,2)/(2,3) seeded sample of 20000 sextuples", "N": [2, 3],
                 "operators": ["diff", "interp", "min", "max"], "to": ["left", "right", "outer", "inner"]},
}
OUTSIDE = ["non-square faces", "more than 6 faces", "more than one face dimension", "float rounding"]
ASSUMPTIONS = ["input data finite"]
AX_COORDS = {"X": {"center": "xc", "left": "xg", "right": "xr", "outer": "xo", "inner": "xi"},
             "Y": {"center": "yc", "left": "yg", "right": "yr", "outer": "yo", "inner": "yi"}}


OPS_T = {"quick": ["diff", "min"], "thorough": ["diff", "interp", "min", "max"]}
TOS_T = {"quick": ["left", "outer"], "thorough": ["left", "right", "outer", "inner"]}


def cases(tier):
    import os
    import random
    out = []
    shapes = [(1, 1), (2, 1), (1, 2), (2, 2)] + ([(3, 1), (1, 3)] if tier == "thorough" else [])
    for (Kx, Ky) in shapes:
        for periodic in (False, True):
            oris = expressible_orientations(Kx, Ky, 2, periodic)
            total = 8 ** (Kx * Ky)
            for oi, orient in enumerate(oris):
                for N in ([2] if tier == "quick" else [2, 3]):
                    if N == 3 and Kx * Ky > 2 and oi % 4:
                        continue
                    for lay in (("fyx", "tfyx", "ftyx") if Kx * Ky <= 2 else ("fyx",)):
                        out.append(dict(Kx=Kx, Ky=Ky, N=N, orient=[list(map(list, o)) for o in orient], periodic=periodic,
                                        lay=lay, n_expressible=len(oris), n_orientations=total, ops=OPS_T[tier], tos=TOS_T[tier],
                                        listing=(oi + len(out)) % 3))
    if tier == "thorough":
        rng = random.Random(int(os.environ.get("VERIF_SEED", "0")))
        for (Kx, Ky) in [(3, 2), (2, 3)]:
            for periodic in (False, True):
                found = 0
                for _ in range(20000):
                    orient = tuple(rng.choice(D4) for _ in range(6))
                    if Decomp(Kx, Ky, 2, orient, periodic).links() is not None:
                        found += 1
                        out.append(dict(Kx=Kx, Ky=Ky, N=2, orient=[list(map(list, o)) for o in orient], periodic=periodic,
                                        lay="fyx", n_expressible=-1, n_orientations=8 ** 6, ops=OPS_T[tier], tos=TOS_T[tier]))
                        if found >= 40:
                            break
    return out


def oracle(dec, G, f, axname, to, op, rule, fill, own):
    """op along local axis `axname` on face f to position `to`; G[gy][gx] = undivided field; own = this face's block [j][i]"""
    N = dec.N
    fop = OPS[op]

    def val(i, j):
        w = dec.wrap(*dec.to_global(f, i, j))
        if w is not None:
            return G[w[1]][w[0]]
        if rule == "fill":
            return fill
        if rule == "extend":
            return own[min(max(j, 0), N - 1)][min(max(i, 0), N - 1)]
        return own[j % N][i % N]

    edges = edges_held(to, N)
    if axname == "X":
        return [[fop(val(e - 1, j), val(e, j)) for e in edges] for j in range(N)]
    return [[fop(val(i, e - 1), val(i, e)) for i in range(N)] for e in edges]


def case(W, cfg):
    import xgcm
    orient = [tuple(map(tuple, o)) for o in cfg["orient"]]
    Kx, Ky, N = cfg["Kx"], cfg["Ky"], cfg["N"]
    dec = Decomp(Kx, Ky, N, orient, cfg["periodic"])
    table = dec.links()
    if table is not None and cfg.get("listing"):
        # the same links, faces listed in another order (descending / rotated): a table is a mapping, not a sequence
        ks = list(table)
        ks = ks[::-1] if cfg["listing"] == 1 else ks[1:] + ks[:1]
        table = {k: table[k] for k in ks}
        if cfg["listing"] == 1:
            # ... and the links spelled as lists (a table read from JSON / YAML); the constructor accepts both spellings
            table = {k: {ax: tuple(list(l) if l is not None else None for l in pair) for ax, pair in d.items()} for k, d in table.items()}
    if table is None:
        # expressibility does not depend on N by construction; guard anyway
        raise harness.HarnessError("orientation not expressible at this N")
    Gflat = W.data("g", (dec.H, dec.W))
    G = [[Gflat[y, x] for x in range(dec.W)] for y in range(dec.H)]
    F = dec.F
    nt = 2 if "t" in cfg["lay"] else 1
    coords = {"face": np.arange(F), "t": np.arange(2)}
    for ax in "XY":
        for p, d in AX_COORDS[ax].items():
            coords[d] = np.arange(plen(p, N)) * 1.0
    ds = xr.Dataset(coords=coords)
    fv = W.scalar("fv")
    data = np.empty((nt, F, N, N), dtype=Gflat.dtype)
    for tt in range(nt):
        for f in range(F):
            for j in range(N):
                for i in range(N):
                    gx, gy = dec.to_global(f, i, j)
                    data[tt, f, j, i] = G[gy][gx] if tt == 0 else G[gy][gx] * 2 + 1
    if cfg["lay"] == "ftyx":
        da = xr.DataArray(data, dims=["t", "face", "yc", "xc"]).transpose("face", "t", "yc", "xc")
    elif "t" in cfg["lay"]:
        da = xr.DataArray(data, dims=["t", "face", "yc", "xc"])
    else:
        da = xr.DataArray(data[0], dims=["face", "yc", "xc"])
    ops, tos = cfg["ops"], cfg["tos"]
    for rule in ("fill", "fill-per-axis", "extend", "periodic"):
        per_axis = rule == "fill-per-axis"
        rule = "fill" if per_axis else rule
        with warnings.catch_warnings():
            warnings.simplefilter("ignore")
            try:
                grid = xgcm.Grid(ds, coords=AX_COORDS, periodic=False, boundary=rule, fill_value=({"X": 2.5, "Y": -1.5} if per_axis else 2.5),
                                 face_connections={"face": table}, autoparse_metadata=False)
            except Exception as e:
                W.fail("table-rejected:%s" % type(e).__name__, "geometrically consistent table refused: %s" % e)
                return
        for axname in ("X", "Y"):
            for to in tos:
                for op in ops:
                    lab = "%s%s:%s:%s->%s" % (rule, "-per-axis" if per_axis else "", op, axname, to)
                    # per-axis variant: the grid-level fill values (different per axis) are in force, none is given per call
                    r = getattr(grid, op)(da, axname, to=to, **({} if per_axis else {"fill_value": fv}))
                    cd = AX_COORDS[axname]["center"]
                    exp_dims = tuple(AX_COORDS[axname][to] if d == cd else d for d in da.dims)
                    W.require("dims:" + lab, tuple(r.dims) == exp_dims, "%s want %s" % (r.dims, exp_dims))
                    if tuple(r.dims) != exp_dims:
                        continue
                    rd = r.transpose("t", "face", ...).data if "t" in cfg["lay"] else r.data[None]
                    got, want = [], []
                    for tt in range(nt):
                        GG = G if tt == 0 else [[v * 2 + 1 for v in row] for row in G]
                        fl = ({"X": 2.5, "Y": -1.5}[axname] if per_axis else fv)
                        for f in range(F):
                            own = [[data[tt, f, j, i] for i in range(N)] for j in range(N)]
                            e = oracle(dec, GG, f, axname, to, op, rule, fl, own)
                            want.append(e)
                            got.append(rd[tt, f])
                    W.equal("value:" + lab, [g.tolist() for g in got], want)


if __name__ == "__main__":
    sys.exit(harness.main(sys.modules[__name__]))
