"""Verdict pipeline shared by all checks (DESIGN.md 2.7).

A check module provides
    ID, TITLE, FUNCTIONS (list of 'module:qualname' executed symbolically)
    cases(tier) -> list of JSON-able cfg dicts
    case(W, cfg)          the harness: builds inputs through the World W, runs
                          the real xgcm code, states obligations with W.equal /
                          W.require.  The same function runs in symbolic mode
                          (inputs are z3 terms, obligations decided by z3 for all
                          values) and in float mode (replay / consistency run on
                          ordinary float64 arrays, no shims).
    optional: finding_key(cfg, failure) -> str, BOUNDS (dict per tier),
              ASSUMPTIONS, OUTSIDE (list of str)
"""
import hashlib
import json
import multiprocessing as mp
import os
import random
import sys
import time
import traceback
import warnings

import numpy as np
import z3

VERIF = os.path.dirname(os.path.dirname(os.path.abspath(__file__)))
if VERIF not in sys.path:
    sys.path.insert(0, VERIF)

from sx import core as sxc  # noqa: E402
from sx import npshim  # noqa: E402
from sx.core import SBool, SInt, SReal, lift  # noqa: E402

SOLVER_TIMEOUT_MS = int(os.environ.get("VERIF_SOLVER_TIMEOUT_MS", "30000"))
NAN = float("nan")


class Vacuous(Exception):
    """float-mode inputs do not satisfy the assumptions"""


class HarnessError(Exception):
    pass


def _isnan(x):
    return isinstance(x, (float, np.floating)) and x != x


def _flatten(a):
    if isinstance(a, np.ndarray):
        return list(a.flat), tuple(a.shape)
    if isinstance(a, (list, tuple)):
        arr = np.empty(len(a), dtype=object)
        if len(a) and isinstance(a[0], (list, tuple, np.ndarray)):
            subs = [_flatten(x) for x in a]
            shp = subs[0][1]
            if any(s[1] != shp for s in subs):
                return None, None
            return [v for s in subs for v in s[0]], (len(a),) + shp
        return list(a), (len(a),)
    return [a], ()


class Failure(dict):
    pass


class World:
    def __init__(self, mode, ctx=None, env=None, seed=0, flavor="float64"):
        self.mode = mode  # 'sym' | 'float'
        self.flavor = flavor  # float mode only: 'float64' | 'int64' (integer-valued int64 arrays) | 'nan' (some cells NaN)
        self.ctx = ctx
        self.env = dict(env or {})
        self.rng = random.Random(seed)
        self.failures = []
        self.records = []  # (label, flat values) for consistency
        self.n_oblig = 0
        self.n_discharged = 0
        self.n_syntactic = 0
        self.n_struct = 0
        self.n_inconclusive = 0
        self.solver_s = 0.0
        self.solver_calls = 0
        self.samples = []
        self.used = {}  # name -> value drawn (float mode)
        self.labels = {}
        self.extra_axioms = []
        self.nonvacuous = False

    sym = property(lambda self: self.mode == "sym")

    # ---------------------------------------------------------------- inputs
    def scalar(self, name, gen=None):
        if self.sym:
            return SReal(z3.Real(name))
        if name in self.used:
            return self.used[name]
        if name in self.env and self.env[name] is not None:
            v = float(self.env[name])
        else:
            v = float(gen(self.rng)) if gen else float(self.rng.randint(-50, 50)) / 4.0
        if self.flavor == "int64":
            v = int(round(v)) if not gen else max(1, int(round(v)))
        self.used[name] = v
        return v

    def data(self, name, shape, gen=None):
        """array of fresh symbols / float64 array (values from env or random)"""
        shape = tuple(int(s) for s in shape)
        if self.sym:
            return sxc.symarr(name, shape)
        a = np.empty(shape, dtype=(np.int64 if self.flavor == "int64" else float))
        for idx in np.ndindex(*shape):
            n = name + "".join("_%d" % i for i in idx)
            if n in self.used:
                v = self.used[n]
            elif n in self.env and self.env[n] is not None:
                v = self.env[n]
                v = float(v) if v == v else float("nan")
            else:
                v = float(gen(self.rng)) if gen else float(self.rng.randint(-50, 50)) / 4.0
                if self.flavor == "int64":
                    v = max(1, int(round(v))) if gen else int(round(v * 2))
                elif self.flavor == "nan" and not gen and self.rng.random() < 0.25:
                    v = float("nan")
            if self.flavor == "int64":
                v = int(v)
            self.used[n] = v
            a[idx] = v
        return a

    def integer(self, name, lo, hi):
        if self.sym:
            v = SInt(z3.Int(name))
            self.assume(z3.And(v.t >= lo, v.t <= hi))
            return v
        if name in self.used:
            v = self.used[name]
        elif name in self.env and self.env[name] is not None:
            v = int(self.env[name])
        else:
            v = self.rng.randint(lo, hi)
        self.used[name] = v
        return v

    def boolean(self, name):
        if self.sym:
            return SBool(z3.Bool(name))
        if name in self.used:
            v = self.used[name]
        elif name in self.env and self.env[name] is not None:
            v = bool(self.env[name])
        else:
            v = bool(self.rng.randint(0, 1))
        self.used[name] = v
        return v

    def assume(self, cond):
        if self.sym:
            self.ctx.assume(cond)
        else:
            if isinstance(cond, (SBool, z3.BoolRef)):
                raise HarnessError("symbolic assumption in float mode")
            if not bool(cond):
                raise Vacuous()

    def axiom(self, cond):
        """extra fact (e.g. monotonicity of an uninterpreted function) added to every obligation"""
        if self.sym:
            self.extra_axioms.append(cond)

    # ----------------------------------------------------------- obligations
    def _count(self, label):
        self.labels[label] = self.labels.get(label, 0) + 1

    def fail(self, label, detail="", model=None):
        self.failures.append(Failure(label=label, detail=str(detail)[:600], model=model))

    def require(self, label, cond, detail=""):
        """structural fact (python bool) or symbolic claim (SBool / z3 Bool): must hold"""
        self._count(label)
        if isinstance(cond, SBool):
            cond = cond.t
        if isinstance(cond, z3.BoolRef):
            if not self.sym:
                raise HarnessError("symbolic claim in float mode")
            self._decide(label, [("claim", z3.Not(cond), detail)])
            return
        self.n_struct += 1
        if not bool(cond):
            self.fail(label, detail)

    def record(self, label, got):
        flat, shape = _flatten(got)
        self.records.append((label, flat))

    def equal(self, label, got, want, detail="", record=True):
        """got == want cell by cell, for all values of the symbols (sym) / numerically (float)"""
        self._count(label)
        g, gs = _flatten(got)
        w, ws = _flatten(want)
        if g is None or w is None or gs != ws:
            self.n_struct += 1
            self.fail(label, "shape mismatch got %s want %s %s" % (gs, ws, detail))
            return
        if record:
            self.records.append((label, g))
        if not self.sym:
            for i, (a, b) in enumerate(zip(g, w)):
                if _isnan(a) or _isnan(b):
                    ok = _isnan(a) and _isnan(b)
                else:
                    a, b = float(a), float(b)
                    ok = abs(a - b) <= 1e-9 * max(1.0, abs(a), abs(b))
                if not ok:
                    self.fail(label, "cell %d of shape %s: got %r want %r %s" % (i, gs, a, b, detail))
                    return
            return
        diffs = []
        for i, (a, b) in enumerate(zip(g, w)):
            an, bn = _isnan(a), _isnan(b)
            if an or bn:
                self.n_struct += 1
                if not (an and bn):
                    self.fail(label, "cell %d: got %r want %r (NaN mismatch) %s" % (i, a, b, detail))
                    return
                continue
            ta, tb_ = lift(a), lift(b)
            if ta is None or tb_ is None:
                self.n_struct += 1
                if not (a is b or a == b):
                    self.fail(label, "cell %d: got %r want %r (non-numeric) %s" % (i, a, b, detail))
                    return
                continue
            if ta.eq(tb_):
                self.n_syntactic += 1  # still sent to the solver below (z3 reduces t != t to false)
            diffs.append((i, ta != tb_, (i, gs, ta, tb_, detail)))
        if len(self.samples) < 3 and g:
            self.samples.append({"label": label, "got[0]": _short(lift(g[0])) if lift(g[0]) is not None else repr(g[0]),
                                 "want[0]": _short(lift(w[0])) if lift(w[0]) is not None else repr(w[0]), "cells": len(g)})
        if diffs:
            self._decide(label, diffs)
        else:
            self.n_oblig += 1
            self.n_discharged += 1

    def holds(self, got, want):
        """soft version of equal(): True iff got == want cell by cell for all values (sym: decided by z3
        under the path condition and assumptions) / numerically (float).  Records nothing."""
        g, gs = _flatten(got)
        w, ws = _flatten(want)
        if g is None or w is None or gs != ws:
            return False
        if not self.sym:
            for a, b in zip(g, w):
                if _isnan(a) or _isnan(b):
                    if not (_isnan(a) and _isnan(b)):
                        return False
                    continue
                a, b = float(a), float(b)
                if abs(a - b) > 1e-9 * max(1.0, abs(a), abs(b)):
                    return False
            return True
        diffs = []
        for a, b in zip(g, w):
            if _isnan(a) or _isnan(b):
                if not (_isnan(a) and _isnan(b)):
                    return False
                continue
            ta, tb_ = lift(a), lift(b)
            if ta is None or tb_ is None:
                if not (a is b or a == b):
                    return False
                continue
            if not ta.eq(tb_):
                diffs.append(ta != tb_)
        if not diffs:
            return True
        t0 = time.time()
        goal = z3.Or(diffs) if len(diffs) > 1 else diffs[0]
        if z3.is_false(z3.simplify(goal)):
            self.solver_calls += 1
            self.solver_s += time.time() - t0
            return True
        base = list(self.ctx.assumptions) + list(self.ctx.pc) + list(self.extra_axioms)
        r, _ = _solve(base + [goal])
        self.solver_calls += 1
        self.solver_s += time.time() - t0
        if r == "unknown":
            self.n_inconclusive += 1
            self.fail("__inconclusive__", "solver unknown in holds()")
        return r == "unsat"

    def holds_claim(self, cond):
        """soft version of require(): True iff the symbolic claim holds for all values under the path condition and
        assumptions (decided by z3); records nothing.  Float mode: plain truth value."""
        if isinstance(cond, SBool):
            cond = cond.t
        if not isinstance(cond, z3.BoolRef):
            return bool(cond)
        t0 = time.time()
        goal = z3.Not(cond)
        if z3.is_false(z3.simplify(goal)):
            self.solver_calls += 1
            self.solver_s += time.time() - t0
            return True
        base = list(self.ctx.assumptions) + list(self.ctx.pc) + list(self.extra_axioms)
        r, _ = _solve(base + [goal])
        self.solver_calls += 1
        self.solver_s += time.time() - t0
        if r == "unknown":
            self.n_inconclusive += 1
            self.fail("__inconclusive__", "solver unknown in holds_claim()")
        return r == "unsat"

    def _decide(self, label, negs):
        """negs: list of (id, negated-claim term, detail).  Claim holds iff pc & assumptions & Or(negs) unsat."""
        self.n_oblig += 1
        ctx = self.ctx
        base = list(ctx.assumptions) + list(ctx.pc) + list(self.extra_axioms)
        goal = z3.Or([n[1] for n in negs]) if len(negs) > 1 else negs[0][1]
        t0 = time.time()
        # first z3's rewriter: a negated claim that normalises to false is refuted for all values
        if z3.is_false(z3.simplify(goal)):
            self.solver_calls += 1
            self.n_rewriter = getattr(self, "n_rewriter", 0) + 1
            self.n_discharged += 1
            self.nonvacuous_pending = True
            self.solver_s += time.time() - t0
            return
        if not self.nonvacuous:
            # vacuity guard: the path condition with all assumptions is satisfiable,
            # i.e. the claim 'False' would be violated here (reachability twin)
            s0 = z3.Solver()
            s0.set("timeout", SOLVER_TIMEOUT_MS)
            s0.add(*base)
            if s0.check() != z3.sat:
                self.solver_s += time.time() - t0
                self.n_inconclusive += 1
                self.fail("__vacuous__", "assumptions unsatisfiable or unknown at " + label)
                return
            self.nonvacuous = True
        if getattr(self, "incremental", False):
            # linear Int/Bool obligations: decided on the path's own incremental solver (pc already asserted)
            sv = ctx.solver
            sv.push()
            sv.add(*self.extra_axioms)
            sv.add(goal)
            rr = sv.check()
            model = sv.model() if rr == z3.sat else None
            sv.pop()
            r = "unsat" if rr == z3.unsat else ("sat" if rr == z3.sat else "unknown")
            if r == "unknown":
                r, model = _solve(base + [goal])
        else:
            r, model = _solve(base + [goal])
        self.solver_calls += 1
        self.solver_s += time.time() - t0
        if r == "unsat":
            self.n_discharged += 1
            return
        if r == "unknown":
            self.n_inconclusive += 1
            self.fail("__inconclusive__", "solver unknown on " + label)
            return
        env = sxc.model_to_floats(model)
        which = negs[0]
        for n in negs:
            try:
                if z3.is_true(model.eval(n[1], model_completion=True)):
                    which = n
                    break
            except Exception:
                pass
        det = which[2]
        if isinstance(det, tuple):
            det = "cell %d of shape %s: got %s want %s %s" % (det[0], det[1], _short(det[2]), _short(det[3]), det[4])
        self.fail(label, det, model=env)


def _short(t, n=160):
    s = str(t).replace("\n", " ")
    s = " ".join(s.split())
    return s if len(s) <= n else s[:n] + "..."


def _solve(assertions):
    """fresh non-incremental solver.  Order: z3 (5 s) -> uninterpreted abstraction of normalised nonlinear monomials
    (LRA; sound for refutation) -> z3 default and QF_NRA (full timeout) -> SMT-LIB2 dump on /usr/bin/z3 4.8.12 and cvc5"""
    s = z3.Solver()
    s.set("timeout", min(5000, SOLVER_TIMEOUT_MS))
    s.add(*assertions)
    r = s.check()
    if r == z3.unsat:
        return "unsat", None
    if r == z3.sat:
        return "sat", s.model()
    try:
        s4 = z3.SolverFor("QF_LRA")
        s4.set("timeout", SOLVER_TIMEOUT_MS)
        cache, fresh = {}, {}
        s4.add(*[abstract_nonlinear(a, cache, fresh) for a in assertions])
        if s4.check() == z3.unsat:
            return "unsat", None
    except z3.Z3Exception:
        pass
    for mk in (z3.Solver, lambda: z3.SolverFor("QF_NRA")):
        try:
            s2 = mk()
            s2.set("timeout", SOLVER_TIMEOUT_MS)
            s2.add(*assertions)
            r2 = s2.check()
            if r2 == z3.unsat:
                return "unsat", None
            if r2 == z3.sat:
                return "sat", s2.model()
        except z3.Z3Exception:
            pass
    r3 = external_solve(s.to_smt2())
    if r3 == "unsat":
        return "unsat", None
    return "unknown", None


def _factors(t, cache, fresh):
    """(numeric coefficient as z3 numeral list, list of abstracted non-numeric factors) of a product / quotient tree"""
    k = t.decl().kind()
    if k == z3.Z3_OP_MUL:
        nums, facs = [], []
        for c in t.children():
            n, f = _factors(c, cache, fresh)
            nums += n
            facs += f
        return nums, facs
    if k == z3.Z3_OP_DIV:
        a, b = t.children()
        n, f = _factors(a, cache, fresh)
        if z3.is_rational_value(b) or z3.is_int_value(b):
            return n + [1 / z3.RealVal(1) * (z3.RealVal(1) / b)], f
        nb = abstract_nonlinear(b, cache, fresh)
        return n, f + [("inv", nb)]
    if k == z3.Z3_OP_UMINUS:
        n, f = _factors(t.children()[0], cache, fresh)
        return n + [z3.RealVal(-1)], f
    if z3.is_rational_value(t) or z3.is_int_value(t):
        return [t], []
    return [], [("fac", abstract_nonlinear(t, cache, fresh))]


def abstract_nonlinear(t, cache, fresh):
    """copy of term t in which each maximal nonlinear monomial / quotient is a fresh Real constant; monomials are
    normalised (flattened, factors sorted), so a*b*c and c*(b*a) get the same constant"""
    key = t.get_id()
    if key in cache:
        return cache[key]
    ch = t.children()
    if not ch:
        cache[key] = t
        return t
    k = t.decl().kind()
    if k in (z3.Z3_OP_MUL, z3.Z3_OP_DIV):
        nums, facs = _factors(t, cache, fresh)
        coeff = None
        for n in nums:
            coeff = n if coeff is None else coeff * n
        if len(facs) == 0:
            r = coeff if coeff is not None else z3.RealVal(1)
        elif len(facs) == 1 and facs[0][0] == "fac":
            r = facs[0][1] if coeff is None else coeff * facs[0][1]
        else:
            sk = tuple(sorted("%s:%s" % (kind, f.sexpr() if len(f.sexpr()) < 2000 else f.get_id()) for kind, f in facs))
            if sk not in fresh:
                fresh[sk] = z3.Real("__nl%d" % len(fresh))
            r = fresh[sk] if coeff is None else coeff * fresh[sk]
        r = z3.simplify(r) if coeff is not None else r
    else:
        nch = [abstract_nonlinear(c, cache, fresh) for c in ch]
        r = t.decl()(*nch)
    cache[key] = r
    return r


def external_solve(smt2, timeout_s=60):
    """decide an SMT-LIB2 dump with /usr/bin/z3 (4.8.12) and cvc5; 'unsat' only if one says unsat and none says sat"""
    import subprocess
    import tempfile
    res = []
    with tempfile.TemporaryDirectory(prefix="verif-smt-") as d:
        p = os.path.join(d, "q.smt2")
        with open(p, "w") as f:
            f.write(smt2)
        for cmd in (["/usr/bin/z3", "-T:%d" % timeout_s, p], ["cvc5", "--tlimit=%d" % (timeout_s * 1000), p]):
            try:
                out = subprocess.run(cmd, capture_output=True, text=True, timeout=timeout_s + 10).stdout
            except Exception:
                continue
            if "(error" in out:
                continue
            first = out.strip().splitlines()[0] if out.strip() else ""
            if first in ("sat", "unsat"):
                res.append(first)
    if "sat" in res:
        return "sat"
    if "unsat" in res:
        return "unsat"
    return "unknown"


# ------------------------------------------------------------------- running
def _cfg_digest(cfg):
    return hashlib.sha1(json.dumps(cfg, sort_keys=True, default=str).encode()).hexdigest()[:12]


def run_float(mod, cfg, env=None, seed=0, tries=1, purpose="consistency", flavor="float64"):
    """run the case on ordinary numpy arrays (float64; or the int64 / NaN-carrying flavours of the concrete sweeps)
    against the real code, no shims"""
    last = None
    for k in range(tries):
        W = World("float", env=env, seed=seed + 7919 * k, flavor=flavor)
        W.purpose = purpose
        try:
            with warnings.catch_warnings():
                warnings.simplefilter("ignore")
                mod.case(W, cfg)
        except Vacuous:
            last = None
            continue
        except (sxc.Concretised, sxc.Incomplete, HarnessError):
            raise
        except Exception as e:  # noqa
            W.fail("uncaught:%s" % type(e).__name__, "%s: %s" % (type(e).__name__, str(e)[:300]))
        return W
    return last


def run_sym(mod, cfg, max_paths, budget_s):
    """explore all paths of the case in symbolic mode; returns (stats, [World per path])"""
    worlds = []
    KEEP = 400  # paths whose full World (records, terms) is retained for the consistency check; the rest is summarised

    def one(ctx):
        W = World("sym", ctx=ctx)
        worlds.append(W)
        try:
            with warnings.catch_warnings():
                warnings.simplefilter("ignore")
                mod.case(W, cfg)
        except (sxc.Abort, sxc.Concretised, sxc.Incomplete, HarnessError):
            if isinstance(sys.exc_info()[1], sxc.Abort):
                worlds.pop()
            raise
        except Exception as e:  # noqa
            W.fail("uncaught:%s" % type(e).__name__, "%s: %s | %s" % (type(e).__name__, str(e)[:300], _tb_tail()))
        W.pc = list(ctx.pc) + list(ctx.assumptions)
        if len(worlds) > KEEP:
            # summarise: drop the heavy parts (term arrays), keep counters and failures
            W.records = []
            W.pc = None
            W.ctx = None
            W.samples = W.samples[:1]
        return None

    npshim.install()
    try:
        st = sxc.explore(one, max_paths=max_paths, budget_s=budget_s)
    finally:
        npshim.uninstall()
    return st, worlds


def _tb_tail():
    tb = traceback.extract_tb(sys.exc_info()[2])
    return " <- ".join("%s:%d" % (os.path.basename(f.filename), f.lineno) for f in tb[-3:])


def work_case(args):
    """worker: one configuration.  Returns a JSON-able dict."""
    modname, cfg, seed, do_consistency, max_paths, budget_s = args
    mod = sys.modules.get(modname) or __import__(modname, fromlist=["x"])
    out = dict(cfg=cfg, paths=0, forks=0, oblig=0, discharged=0, syntactic=0, struct=0, inconclusive=0,
               solver_s=0.0, solver_calls=0, pc_checks=0, violations=[], errors=[], consistency=0,
               samples=[], labels={}, wall=0.0, nonvacuous_paths=0)
    t0 = time.time()
    trace = os.environ.get("VERIF_TRACE")
    if trace:
        print("START %d %s" % (os.getpid(), json.dumps(cfg, default=str)[:200]), file=sys.stderr, flush=True)
    try:
        st, worlds = run_sym(mod, cfg, max_paths, budget_s)
    except sxc.Concretised as e:
        out["errors"].append("Concretised: %s" % e)
        out["wall"] = time.time() - t0
        return out
    except sxc.Incomplete as e:
        out["errors"].append("Incomplete: %s" % e)
        out["wall"] = time.time() - t0
        return out
    except HarnessError as e:
        out["errors"].append("HarnessError: %s" % e)
        out["wall"] = time.time() - t0
        return out
    out["paths"] = st["paths"]
    out["forks"] = st["forks"]
    out["pc_checks"] = st["checks"]
    out["solver_s"] = st["solver_s"]
    fails = []
    for W in worlds:
        out["oblig"] += W.n_oblig
        out["discharged"] += W.n_discharged
        out["syntactic"] += W.n_syntactic
        out["struct"] += W.n_struct
        out["inconclusive"] += W.n_inconclusive
        out["solver_s"] += W.solver_s
        out["solver_calls"] += W.solver_calls
        out["nonvacuous_paths"] += 1 if (W.nonvacuous or W.n_struct or W.n_syntactic) else 0
        for k, v in W.labels.items():
            out["labels"][k] = out["labels"].get(k, 0) + v
        if len(out["samples"]) < 2:
            out["samples"].extend(W.samples[:2])
        for f in W.failures:
            fails.append(f)
    # triage failures: replay on the real float64 code
    seen = set()
    for f in fails:
        if f["label"] in ("__inconclusive__", "__vacuous__"):
            out["errors"].append("%s: %s" % (f["label"], f["detail"]))
            continue
        sig = f["label"]
        if sig in seen:
            continue
        seen.add(sig)
        if len(seen) > 4:
            break
        env = f.get("model") or {}
        try:
            WF = run_float(mod, cfg, env=env, seed=seed, tries=3 if not env else 1, purpose="replay")
        except Exception as e:  # noqa
            out["errors"].append("replay crashed for %s: %r" % (f["label"], e))
            continue
        rep = None
        if WF is not None:
            for ff in WF.failures:
                if ff["label"] == f["label"]:
                    rep = ff
                    break
        if rep is None:
            out["errors"].append("non-reproducing counterexample: %s: %s | float run failures: %s" % (
                f["label"], f["detail"], [x["label"] for x in (WF.failures if WF else [])]))
            continue
        out["violations"].append(dict(label=f["label"], detail_sym=f["detail"], detail_float=rep["detail"],
                                      env=WF.used))
    # symbolic/concrete consistency
    if do_consistency and not out["errors"]:
        try:
            WF = run_float(mod, cfg, env=None, seed=seed, tries=5)
            if WF is not None:
                env = WF.used
                W = _select_path(worlds, env)
                if W is not None and not any(f["label"].startswith("uncaught") for f in W.failures + WF.failures):
                    msg = _compare_records(W, WF, env)
                    if msg:
                        out["errors"].append("symbolic/concrete inconsistency: " + msg)
                    else:
                        out["consistency"] = 1
        except (KeyError, NotImplementedError) as e:
            out["errors"].append("consistency run failed: %r" % e)
    # concrete sweeps (auxiliary, sampled, NOT solver-decided): the same case on integer-valued int64 arrays / on
    # arrays carrying NaN, against the same oracle; reaches dtype- and NaN-dependent code that real-valued symbols cannot
    sweeps = getattr(mod, "SWEEPS", None)
    if sweeps:  # independent real runs: also made when the symbolic run could not give a verdict
        h = int(_cfg_digest(cfg), 16)
        for flavor, every in sweeps.items():
            sel = getattr(mod, "sweep_applies", lambda cfg, flavor: True)(cfg, flavor)
            if not sel or (h + seed) % every != 0:
                continue
            try:
                WS = run_float(mod, cfg, env=None, seed=seed + 13, tries=3, purpose="sweep", flavor=flavor)
            except Exception as e:  # noqa
                out["errors"].append("sweep %s crashed: %r" % (flavor, e))
                continue
            if WS is None:
                continue
            out["sweeps"] = out.get("sweeps", 0) + 1
            seen_s = set()
            for f in WS.failures:
                if f["label"] in seen_s:
                    continue
                seen_s.add(f["label"])
                out["violations"].append(dict(label="sweep:%s:%s" % (flavor, f["label"]), detail_sym="(concrete sweep, flavour %s)" % flavor,
                                              detail_float=f["detail"], env=WS.used))
                if len(seen_s) >= 3:
                    break
    out["wall"] = time.time() - t0
    if trace:
        print("END %d %.1fs paths=%d" % (os.getpid(), out["wall"], out["paths"]), file=sys.stderr, flush=True)
    return out


def _select_path(worlds, env):
    if len(worlds) == 1:
        return worlds[0]
    for W in worlds:
        if getattr(W, "pc", None) is None:
            continue
        try:
            if all(sxc.eval_float(c, env) for c in W.pc):
                return W
        except KeyError:
            continue
    return None


def _compare_records(W, WF, env):
    if [r[0] for r in W.records] != [r[0] for r in WF.records]:
        return "record labels differ: %s vs %s" % ([r[0] for r in W.records][:6], [r[0] for r in WF.records][:6])
    cache = {}
    for (lab, gs), (_, gf) in zip(W.records, WF.records):
        if len(gs) != len(gf):
            return "%s: lengths differ %d vs %d" % (lab, len(gs), len(gf))
        for i, (a, b) in enumerate(zip(gs, gf)):
            try:
                av = sxc.value_float(a, env, cache)
            except KeyError as e:
                return "%s: symbol %s has no float value" % (lab, e)
            if _isnan(av) or _isnan(b):
                if not (_isnan(av) and _isnan(b)):
                    return "%s cell %d: symbolic %r vs float %r" % (lab, i, av, b)
                continue
            if isinstance(av, (bool, np.bool_)) or isinstance(b, (bool, np.bool_)):
                if bool(av) != bool(b):
                    return "%s cell %d: symbolic %r vs float %r" % (lab, i, av, b)
                continue
            if isinstance(av, str) or isinstance(b, str) or av is None or b is None:
                if av != b:
                    return "%s cell %d: %r vs %r" % (lab, i, av, b)
                continue
            if abs(float(av) - float(b)) > 1e-7 * max(1.0, abs(float(av)), abs(float(b))):
                return "%s cell %d: symbolic %r vs float %r" % (lab, i, av, b)
    return None


# -------------------------------------------------------------------- driver
def load_known(prop):
    p = os.path.join(VERIF, "known_findings.json")
    if not os.path.exists(p):
        return {}, {}
    data = json.load(open(p))
    openf, fixed = {}, {}
    for e in data.get("findings", []):
        if e.get("property") != prop:
            continue
        (openf if e.get("status") == "open" else fixed)[e["key"]] = e
    return openf, fixed


def source_digests(functions):
    import importlib
    import inspect
    out = []
    for spec in functions:
        modn, _, qn = spec.partition(":")
        try:
            m = importlib.import_module(modn)
            obj = m
            for part in qn.split("."):
                obj = getattr(obj, part)
            obj = getattr(obj, "py_func", obj)
            obj = getattr(obj, "ufunc", obj) if not inspect.isfunction(obj) and hasattr(obj, "ufunc") else obj
            src = inspect.getsource(obj)
            out.append({"function": spec, "file": os.path.relpath(inspect.getsourcefile(obj), repo_root()),
                        "sha1": hashlib.sha1(src.encode()).hexdigest()[:12], "lines": len(src.splitlines())})
        except Exception as e:  # noqa
            out.append({"function": spec, "error": repr(e)[:80]})
    return out


def repo_root():
    return os.environ.get("VERIF_REPO", "/repo")


def main(mod, argv=None):
    """exit code of the check; any exception of the machinery itself is exit 2 (no verdict), never 1"""
    try:
        return _main(mod, argv)
    except SystemExit:
        raise
    except BaseException as e:  # noqa
        traceback.print_exc()
        print("HARNESS-ERROR uncaught %s: %s" % (type(e).__name__, str(e)[:300]), file=sys.stderr)
        return 2


def _main(mod, argv=None):
    import argparse
    ap = argparse.ArgumentParser()
    ap.add_argument("--tier", default=os.environ.get("VERIF_TIER", "quick"))
    ap.add_argument("--replay", default=None)
    ap.add_argument("--jobs", type=int, default=int(os.environ.get("VERIF_JOBS", "16")))
    ap.add_argument("--limit", type=int, default=0, help="debug: only the first N cases")
    ap.add_argument("--only", default=None, help="debug: substring filter on json(cfg)")
    a = ap.parse_args(argv)
    seed = int(os.environ.get("VERIF_SEED", "0"))
    if a.replay:
        return replay(mod, a.replay)
    t0 = time.time()
    tier = a.tier if a.tier in ("quick", "thorough") else "quick"
    warnings.simplefilter("ignore")
    shim_checks = npshim.selfcheck(seed)
    pre = getattr(mod, "prechecks", None)
    pre_info = pre(tier) if pre else None
    cases = mod.cases(tier)
    if a.only:
        cases = [c for c in cases if a.only in json.dumps(c, sort_keys=True, default=str)]
    if a.limit:
        cases = cases[: a.limit]
    cons_every = getattr(mod, "CONSISTENCY_EVERY", {"quick": 7, "thorough": 11})[tier]
    max_paths = getattr(mod, "MAX_PATHS", 20000)
    budget_s = getattr(mod, "CASE_BUDGET_S", {"quick": 300, "thorough": 1800})[tier]
    jobs = []
    for i, cfg in enumerate(cases):
        h = int(_cfg_digest(cfg), 16)
        jobs.append((mod.__name__, cfg, seed, (h + seed) % cons_every == 0, max_paths, budget_s))
    results = []
    if a.jobs > 1 and len(jobs) > 1:
        results = run_pool(jobs, min(a.jobs, len(jobs)))
    else:
        for j in jobs:
            results.append(work_case(j))
    return finish(mod, tier, seed, results, time.time() - t0, shim_checks, pre_info, len(cases))


def run_pool(jobs, nproc):
    """process pool that survives the death of a worker (OOM kill, solver crash): the pool is rebuilt and the
    unfinished cases are retried; a case that kills its worker twice is reported as a harness error"""
    from concurrent.futures import ProcessPoolExecutor, as_completed
    from concurrent.futures.process import BrokenProcessPool
    ctx = mp.get_context("fork")
    results, pending, strikes = [], list(range(len(jobs))), {}
    while pending:
        done_now = set()
        try:
            with ProcessPoolExecutor(max_workers=nproc, mp_context=ctx) as ex:
                futs = {ex.submit(work_case, jobs[i]): i for i in pending}
                for f in as_completed(futs):
                    i = futs[f]
                    results.append(f.result())
                    done_now.add(i)
        except BrokenProcessPool:
            pass
        left = [i for i in pending if i not in done_now]
        if len(left) == len(pending) or (left and len(left) <= nproc):
            for i in left:
                strikes[i] = strikes.get(i, 0) + 1
        dead = [i for i in left if strikes.get(i, 0) >= 2]
        for i in dead:
            results.append(dict(cfg=jobs[i][1], paths=0, forks=0, oblig=0, discharged=0, syntactic=0, struct=0, inconclusive=0, solver_s=0.0,
                                solver_calls=0, pc_checks=0, violations=[], errors=["worker process died while running this case (twice)"], consistency=0,
                                samples=[], labels={}, wall=0.0, nonvacuous_paths=0))
        pending = [i for i in left if i not in dead]
        if pending and len(pending) <= nproc:
            nproc = max(1, nproc // 2)  # the suspects run with fewer neighbours
    return results


def finish(mod, tier, seed, results, wall, shim_checks, pre_info, ncases):
    prop = mod.ID
    openf, fixed = load_known(prop)
    tot = dict(paths=0, forks=0, oblig=0, discharged=0, syntactic=0, struct=0, inconclusive=0, solver_s=0.0,
               solver_calls=0, pc_checks=0, consistency=0, nonvacuous_paths=0, sweeps=0)
    labels = {}
    errors, viols, samples = [], [], []
    for r in results:
        for k in tot:
            tot[k] += r.get(k, 0)
        for k, v in r["labels"].items():
            labels[k] = labels.get(k, 0) + v
        for e in r["errors"]:
            errors.append((r["cfg"], e))
        for v in r["violations"]:
            viols.append((r["cfg"], v))
        if len(samples) < 4 and r["samples"]:
            samples.append({"cfg": r["cfg"], "obligations": r["samples"][:2], "paths": r["paths"]})
    if pre_info:
        for k in ("oblig", "discharged", "solver_s", "solver_calls"):
            tot[k] += pre_info.get(k, 0)
        errors.extend((("precheck",), e) for e in pre_info.get("errors", []))
        for v in pre_info.get("violations", []):
            viols.append((v.get("cfg", {"precheck": True}), v))
        samples.extend(pre_info.get("samples", [])[:3])
    fk = getattr(mod, "finding_key", lambda cfg, v: v["label"])
    known_hit, new_viols = {}, []
    for cfg, v in viols:
        key = fk(cfg, v)
        if key in openf:
            known_hit.setdefault(key, (cfg, v))
        else:
            new_viols.append((cfg, v, key))
    rc = 0
    for key, (cfg, v) in sorted(known_hit.items()):
        print("KNOWN-FINDING: property=%s %s [%s]" % (prop, openf[key]["what"], key))
    reported = set()
    replays = []
    for cfg, v, key in new_viols:
        if key in reported:
            continue
        reported.add(key)
        path = write_replay(mod, cfg, v, key)
        replays.append(path)
        print("VIOLATION property=%s replay=%s" % (prop, path))
        print("  key=%s label=%s\n  cfg=%s\n  symbolic: %s\n  real float64 run: %s" % (
            key, v["label"], json.dumps(cfg, default=str), v.get("detail_sym"), v.get("detail_float")))
        rc = 1
        if len(reported) >= 12:
            break
    if errors and rc == 0:
        rc = 2
    for cfg, e in errors[:10]:
        print("HARNESS-ERROR %s cfg=%s" % (e, json.dumps(cfg, default=str)[:300]), file=sys.stderr)
    if os.environ.get("VERIF_DEBUG"):
        for r in sorted(results, key=lambda r: -r["wall"])[:6]:
            print("SLOW %.1fs paths=%d %s" % (r["wall"], r["paths"], json.dumps(r["cfg"], default=str)[:200]), file=sys.stderr)
    exhaustive = not errors
    bounds = getattr(mod, "BOUNDS", {}).get(tier, {})
    ev = {
        "property_id": prop,
        "tier": tier,
        "seed": seed,
        "level": "model_checking",
        "wall_s": round(wall, 2),
        "violations": len(reported),
        "assumptions": list(getattr(mod, "ASSUMPTIONS", [])) + [
            "arithmetic over the reals (no floating-point rounding/overflow)",
            "numpy/xarray/dask move dtype=object cells as they move float64 cells (checked on %d cases by a float64 run of the real code)" % tot["consistency"],
            "numpy shims min/max/nanmin/nanmax/isnan/interp/log model the real functions (%d concrete validations this run)" % shim_checks,
            "z3 %s is sound" % z3.get_version_string(),
        ],
        "coverage": {
            "states": max(1, tot["paths"]),
            "transitions": max(1, tot["forks"] + tot["oblig"] + tot["struct"]),
            "traces_validated_against_impl": tot["consistency"],
            "samples": samples or [{"note": "no obligation sample recorded"}],
            "evaluations": max(1, ncases),
            "distinct_nontrivial": max(2, sum(1 for r in results if r["oblig"] + r["struct"] > 0)) if len(results) > 1 else 2,
            "rule": getattr(mod, "RULE", "every configuration in the stated bounds is one case; each case is executed symbolically on the real code (all paths), each obligation is a z3 query over all real data values; a case is non-trivial if it reached at least one obligation"),
            "obligations": tot["oblig"] + tot["struct"],
            "discharged": tot["discharged"] + tot["struct"] - sum(1 for _ in viols),
            "solver_obligations": tot["oblig"],
            "solver_discharged": tot["discharged"],
            "cells_equal_syntactically": tot["syntactic"],
            "structural_assertions": tot["struct"],
            "inconclusive": tot["inconclusive"],
            "solver_queries": tot["solver_calls"] + tot["pc_checks"],
            "solver_s": round(tot["solver_s"], 2),
            "paths": tot["paths"],
            "forks": tot["forks"],
            "nonvacuous_paths": tot["nonvacuous_paths"],
            "cases": ncases,
            "obligation_labels": labels,
            "exhaustive": bool(exhaustive),
            "bounds": bounds,
            "outside_claim": getattr(mod, "OUTSIDE", []),
            "functions_encoded": source_digests(getattr(mod, "FUNCTIONS", [])),
            "concrete_sweeps": {"runs": tot["sweeps"], "flavours": getattr(mod, "SWEEPS", {}),
                                "note": "auxiliary sampled runs of the same cases on int64 / NaN-carrying arrays against the same oracle; not solver-decided"},
            "known_findings_hit": sorted(known_hit),
            "fixed_findings_watched": sorted(fixed),
            "harness_errors": [e for _, e in errors[:5]],
            "replays": replays,
            "engine": "sx (value-overloading symbolic execution of the real code) + z3 %s; cross-check /usr/bin/z3 4.8.12, cvc5" % z3.get_version_string(),
            "repo": repo_root(),
        },
    }
    if pre_info and pre_info.get("coverage"):
        ev["coverage"].update(pre_info["coverage"])
    os.makedirs(os.path.join(VERIF, "evidence"), exist_ok=True)
    with open(os.path.join(VERIF, "evidence", prop + ".json"), "w") as f:
        json.dump(ev, f, indent=1, default=str)
    print("%s %s: cases=%d paths=%d obligations=%d (solver %d, structural %d) discharged=%d inconclusive=%d "
          "consistency=%d solver_s=%.1f wall=%.1fs known=%d violations=%d errors=%d -> exit %d" % (
              prop, tier, ncases, tot["paths"], tot["oblig"] + tot["struct"], tot["oblig"], tot["struct"],
              tot["discharged"] + tot["struct"], tot["inconclusive"], tot["consistency"], tot["solver_s"], wall,
              len(known_hit), len(reported), len(errors), rc))
    return rc


def write_replay(mod, cfg, v, key):
    os.makedirs(os.path.join(VERIF, "replays"), exist_ok=True)
    body = {"property": mod.ID, "module": mod.__name__, "key": key, "cfg": cfg, "env": v.get("env", {}),
            "label": v["label"], "symbolic": v.get("detail_sym"), "float": v.get("detail_float"),
            "how": "bin/check %s --replay <this file>  (runs the case on float64 arrays against the real code in $VERIF_REPO or /repo)" % mod.ID}
    dg = hashlib.sha1(json.dumps(body, sort_keys=True, default=str).encode()).hexdigest()[:10]
    path = os.path.join(VERIF, "replays", "%s-%s.json" % (mod.ID, dg))
    with open(path, "w") as f:
        json.dump(body, f, indent=1, default=str)
    return path


def replay(mod, path):
    body = json.load(open(path))
    flavor, label = "float64", body["label"]
    if label.startswith("sweep:"):
        _, flavor, label = label.split(":", 2)
    WF = run_float(mod, body["cfg"], env=body.get("env"), seed=0, purpose="replay", flavor=flavor)
    hit = [f for f in (WF.failures if WF else []) if f["label"] == label]
    if hit:
        print("REPRODUCED %s: %s" % (body["label"], hit[0]["detail"]))
        print("VIOLATION property=%s replay=%s" % (mod.ID, path))
        return 1
    print("not reproduced (label %s); failures now: %s" % (body["label"], [f["label"] for f in (WF.failures if WF else [])]))
    return 0
