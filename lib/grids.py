"""helpers to build small datasets / grids for the harnesses (harness code, not oracle)"""
import itertools
import warnings

import numpy as np
import xarray as xr

from specs.stencil import POS, plen


def layouts():
    """all 16 position subsets containing center"""
    out = []
    for k in range(0, 5):
        for extra in itertools.combinations(POS[1:], k):
            out.append(("center",) + extra)
    return out


def axis_dims(axname, layout, names=None):
    """position -> dim name"""
    if names:
        return {p: names[p] for p in layout}
    return {p: "%s_%s" % (axname.lower(), p[0]) if False else "%s%s" % (axname.lower(), {"center": "c", "left": "l", "right": "r", "inner": "i", "outer": "o"}[p]) for p in layout}


def make_ds(axes, N, extra=None, with_coords=True):
    """axes: {axname: layout}; N: {axname: n} or int; extra: {dim: size}"""
    coords = {}
    for ax, layout in axes.items():
        n = N[ax] if isinstance(N, dict) else N
        for p, d in axis_dims(ax, layout).items():
            coords[d] = np.arange(plen(p, n)) * 1.0 + {"center": 0.5, "left": 0.0, "right": 1.0, "inner": 1.0, "outer": 0.0}[p]
    for d, s in (extra or {}).items():
        coords[d] = np.arange(s)
    if with_coords:
        return xr.Dataset(coords=coords)
    ds = xr.Dataset()
    for d, v in coords.items():
        ds = ds.assign({("_v_" + d): ((d,), np.zeros(len(v)))})
    return ds


def make_grid(ds, axes, **kw):
    import xgcm
    with warnings.catch_warnings():
        warnings.simplefilter("ignore")
        return xgcm.Grid(ds, coords={ax: axis_dims(ax, layout) for ax, layout in axes.items()},
                         autoparse_metadata=False, **kw)


def interleavings(core, extra):
    """all orders of core+extra dims that keep the relative order of `core` and of `extra`"""
    n = len(core) + len(extra)
    out = []
    for pos in itertools.combinations(range(n), len(core)):
        order = [None] * n
        ci, ei = iter(core), iter(extra)
        for i in range(n):
            order[i] = next(ci) if i in pos else next(ei)
        out.append(tuple(order))
    return out
