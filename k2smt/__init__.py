"""k2smt: merged (single-path) encoding of xgcm's numeric kernels from their AST.

The kernel's source is read at run time (inspect.getsource of the function found
in the repo under test), parsed, and interpreted statement by statement on a store
whose values are sx.SReal terms / object arrays.  Expressions are evaluated by
Python's own eval on the store, so xgcm's expressions are used verbatim.  On an
``if`` whose test is symbolic both arms are executed on copies of the store and
every assigned variable / array cell is merged with z3 If (state merging), so the
whole kernel is one term per output cell.  Loop bounds are the concrete sizes of
the bound being checked: unrolling is exact.  Anything outside the supported
fragment raises Unsupported -- the caller then falls back to forking through the
unmodified Python function (never passes by default).

Supported: Assign, AugAssign (incl. subscripts), slice assignment, Expr, Pass,
For over a concrete iterable, If/elif/else with and/or/not, Continue (as the last
statement of an arm).
"""
import ast
import inspect
import textwrap

import numpy as np
import z3

from sx.core import SBool, SReal, lift, smax, smin


class Unsupported(Exception):
    pass


def _s_isnan(x):
    if isinstance(x, SReal):
        return False  # symbolic inputs are finite (assumption)
    if isinstance(x, np.ndarray) and x.dtype == object:
        return np.array([isinstance(v, float) and v != v for v in x.ravel()], dtype=bool).reshape(x.shape)
    return np.isnan(x)


class _NP:
    def __getattr__(self, k):
        if k == "isnan":
            return _s_isnan
        return getattr(np, k)


def _cond(node, env):
    if isinstance(node, ast.BoolOp):
        parts = [_cond(v, env) for v in node.values]
        return (z3.And if isinstance(node.op, ast.And) else z3.Or)(*parts)
    if isinstance(node, ast.UnaryOp) and isinstance(node.op, ast.Not):
        return z3.Not(_cond(node.operand, env))
    v = eval(compile(ast.Expression(node), "<k2smt>", "eval"), env["__g"], env)
    if isinstance(v, SBool):
        return v.t
    if isinstance(v, (bool, np.bool_)):
        return z3.BoolVal(bool(v))
    raise Unsupported("condition of type %s" % type(v).__name__)


def _merge(c, a, b):
    if isinstance(a, np.ndarray) or isinstance(b, np.ndarray):
        if not (isinstance(a, np.ndarray) and isinstance(b, np.ndarray)) or a.shape != b.shape:
            raise Unsupported("merge of arrays of different shape")
        out = np.empty(a.shape, dtype=object)
        for i in np.ndindex(*a.shape):
            out[i] = _merge(c, a[i], b[i])
        return out
    la, lb = lift(a), lift(b)
    if la is None or lb is None:
        if a is b:
            return a
        try:
            if a == b:
                return a
        except Exception:
            pass
        raise Unsupported("merge of non-numeric values %r / %r" % (a, b))
    if la.eq(lb):
        return a
    return SReal(z3.If(c, la, lb))


def _snapshot(env):
    return {k: (v.copy() if isinstance(v, np.ndarray) else v) for k, v in env.items()}


def _run(stmts, env):
    """returns 'continue' if the block ends the current loop iteration"""
    for idx, st in enumerate(stmts):
        if isinstance(st, (ast.Assign, ast.AugAssign, ast.Expr, ast.Pass)):
            exec(compile(ast.Module([st], []), "<k2smt>", "exec"), env["__g"], env)
        elif isinstance(st, ast.For):
            if st.orelse or not isinstance(st.target, ast.Name):
                raise Unsupported("for-else / tuple target")
            it = eval(compile(ast.Expression(st.iter), "<k2smt>", "eval"), env["__g"], env)
            for v in it:
                env[st.target.id] = v
                _run(st.body, env)
        elif isinstance(st, ast.If):
            c = z3.simplify(_cond(st.test, env))
            if z3.is_true(c):
                r = _run(st.body, env)
            elif z3.is_false(c):
                r = _run(st.orelse, env)
            else:
                e1, e2 = _snapshot(env), _snapshot(env)
                r1, r2 = _run(st.body, e1), _run(st.orelse, e2)
                rest = stmts[idx + 1:]
                if r1 == "continue" and r2 != "continue":
                    _run_rest(rest, e2)
                    _merge_envs(env, c, e1, e2)
                    return None if not rest else None
                if r2 == "continue" and r1 != "continue":
                    _run_rest(rest, e1)
                    _merge_envs(env, c, e1, e2)
                    return None
                if r1 == "continue" and r2 == "continue":
                    _merge_envs(env, c, e1, e2)
                    return "continue"
                _merge_envs(env, c, e1, e2)
                r = None
            if r == "continue":
                return "continue"
        elif isinstance(st, ast.Continue):
            return "continue"
        else:
            raise Unsupported(type(st).__name__)
    return None


def _run_rest(rest, env):
    if _run(rest, env) == "continue":
        pass


def _merge_envs(env, c, e1, e2):
    for k in set(e1) | set(e2):
        if k.startswith("__"):
            continue
        if k in e1 and k in e2:
            env[k] = _merge(c, e1[k], e2[k])
        else:
            env[k] = e1[k] if k in e1 else e2[k]  # defined on one arm only: only read under the same guard


def encode(pyfunc, *args):
    """run the function symbolically with state merging; returns the final store"""
    pyfunc = getattr(pyfunc, "py_func", pyfunc)
    src = textwrap.dedent(inspect.getsource(pyfunc))
    tree = ast.parse(src)
    fn = tree.body[0]
    if not isinstance(fn, ast.FunctionDef):
        raise Unsupported("not a function definition")
    g = {"np": _NP(), "max": smax, "min": smin, "len": len, "range": range, "abs": abs}
    env = {"__g": g}
    params = [a.arg for a in fn.args.args]
    if len(params) != len(args):
        raise Unsupported("arity")
    for a, v in zip(params, args):
        env[a] = v
    _run(fn.body, env)
    return env
